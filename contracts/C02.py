"""C02 - compression is transparent, lossless and atomically published.

Functions under contract (spikeglx.py): Reader.__init__ (companion resolution), _get_companion_file, Reader.compress_file, Reader.decompress_file,
Reader.decompress_to_scratch, Reader.is_mtscomp.  mtscomp.compress / decompress are external: assumed contract with a normal and an exceptional
outcome (A-MTSCOMP); its indexing surface is validated natively in the bounded stand-in.
"""
import os
import pathlib
import shutil
import tempfile

import numpy as np
import z3

import mtscomp
import spikeglx
from pyvc.api import harness, bounded, property_meta, run_function
from pyvc.core import SV, term, fresh_name, wrap
from pyvc import arrays as A, interp as I, fsmodel, models
from pyvc.interp import SObj, PyRaise

PROPERTY = "C02"
property_meta(
    PROPERTY, level="other",
    trusted_base=["A-PY", "A-FS (exists/unlink/rename/move are atomic primitives of the ghost file system)",
                  "A-MTSCOMP: compress(src, out, outmeta) on return: out holds C(content(src)) and outmeta exists; on exception: out / outmeta may be left in any state, src and every other path untouched; "
                  "decompress dually with D(C(b)) == b; mtscomp.Reader indexing == ndarray indexing (checked natively, bounded)"],
    explanation="ghost-file-system contracts: companion resolution for the three kinds of path and every combination of existing files; compress_file / decompress_file / decompress_to_scratch with a normal and an "
                "exceptional outcome of mtscomp: final names appear only complete (rename/move after success), the source is removed only after its replacement is complete, lossless by D(C(b))=b. "
                "Reader on .bin vs .cbin for every selector around chunk boundaries, and injected failures inside mtscomp: bounded stand-in on real files.")

Bytes = z3.DeclareSort("Bytes")
Cf = z3.Function("C", Bytes, Bytes)
Df = z3.Function("D", Bytes, Bytes)


class FailNow(Exception):
    pass


def mk_fs(it, base="rec.imec0.ap", symbolic_exists=()):
    fs_ = fsmodel.GhostFS()
    it.session.ghost_fs = fs_
    d = ("data", "probe00")
    paths = {sfx: fsmodel.GhostPath(fs_, d, base + sfx) for sfx in (".bin", ".cbin", ".ch", ".meta", ".cbin_tmp", ".bin_temp")}
    for sfx, p in paths.items():
        fs_.content[p.key] = z3.Const(fresh_name("content" + sfx.replace(".", "_")), Bytes)
        fs_.size[p.key] = SV(z3.Int(fresh_name("size")))
    for sfx in symbolic_exists:
        fs_.exists[paths[sfx].key] = SV(z3.Bool(fresh_name("exists" + sfx.replace(".", "_"))))
    # A-MTSCOMP D(C(b)) == b is used through ground instances at the contents in play (keeps every query quantifier free,
    # so that a failing obligation comes back as `sat` with a model instead of `unknown`)
    for p_ in paths.values():
        c_ = fs_.content[p_.key]
        it.ctx.assume(Df(Cf(c_)) == c_)
    it.session.contracts[pathlib.Path] = lambda it_, a, k: a[0]
    return fs_, paths


def ex_term(fs_, p):
    e = fs_.ex(p.key)
    return term(e) if not isinstance(e, bool) else z3.BoolVal(e)


def snapshot(fs_):
    return dict(fs_.exists), dict(fs_.content)


def install_mtscomp(it, fs_):
    """assumed contract of the two mtscomp entry points, with a fresh boolean deciding success or failure part-way"""
    def compress(it_, a, k):
        src, out, outmeta = a[0], k["out"], k["outmeta"]
        it_.ctx.oblige("mtscomp.compress.pre.src_exists", ex_term(fs_, src), "pre")
        fs_.log.append(("compress", src.key, out.key))
        if it_.ctx.branch(z3.Bool(fresh_name("compress_fails"))):
            fs_.exists[out.key] = SV(z3.Bool(fresh_name("partial_out")))
            fs_.content[out.key] = z3.Const(fresh_name("garbage"), Bytes)
            # mtscomp opens the header for writing only after the last chunk: a failure leaves it untouched, or (re)written - it never removes one
            fs_.exists[outmeta.key] = SV(z3.Or(ex_term(fs_, outmeta), z3.Bool(fresh_name("partial_meta"))))
            raise PyRaise(RuntimeError("mtscomp.compress failed part-way"))
        fs_.exists[out.key] = True
        fs_.content[out.key] = Cf(fs_.content[src.key])
        it_.ctx.assume(Df(Cf(fs_.content[src.key])) == fs_.content[src.key])
        fs_.exists[outmeta.key] = True
        return None

    class R:
        _pyvc_ok = True

        def close(self):
            return None

    def decompress(it_, a, k):
        src, ch, out = a[0], a[1], k["out"]
        it_.ctx.oblige("mtscomp.decompress.pre.exists", z3.And(ex_term(fs_, src), ex_term(fs_, ch)), "pre")
        if out is None:
            # mtscomp.decompress(out=None): the data are only handed back in memory, nothing is written
            fs_.log.append(("decompress_in_memory", src.key, None))
            return R()
        fs_.log.append(("decompress", src.key, out.key))
        if it_.ctx.branch(z3.Bool(fresh_name("decompress_fails"))):
            fs_.exists[out.key] = SV(z3.Bool(fresh_name("partial_out")))
            fs_.content[out.key] = z3.Const(fresh_name("garbage"), Bytes)
            raise PyRaise(RuntimeError("mtscomp.decompress failed part-way"))
        fs_.exists[out.key] = True
        fs_.content[out.key] = Df(fs_.content[src.key])
        return R()
    it.session.contracts[mtscomp.compress] = compress
    it.session.contracts[mtscomp.decompress] = decompress

    def move(it_, a, k):
        src, dst = a[0], a[1]
        it_.ctx.oblige("shutil.move.pre.src_exists", ex_term(fs_, src), "pre")
        src.rename(dst)
        return dst

    def copy(it_, a, k):
        src, dst = a[0], a[1]
        fs_.exists[dst.key] = True
        fs_.content[dst.key] = fs_.content.get(src.key)
        return dst
    it.session.contracts[shutil.move] = move
    it.session.contracts[shutil.copy] = copy


def mk_reader(paths, which, meta=None):
    md = {"typeThis": "imec", "imSampRate": 30000.0, "nSavedChans": 385.0}
    return SObj(spikeglx.Reader, file_bin=paths[which], file_meta_data=paths[".meta"], meta=md, dtype=np.dtype("int16"), _raw=None)


# ----------------------------------------------------------------------------- companion resolution
def replay_companion(vals, oid):
    bad = []
    for have in (("bin",), ("cbin",), ("bin", "cbin")):
        for handed in ("bin", "cbin", "meta"):
            if handed in ("bin", "cbin") and handed not in have:
                continue
            d = tempfile.mkdtemp(prefix="c02_")
            try:
                files = _mk_pair(d, 3000, 385, np.random.default_rng(0), keep=have)
                sr = spikeglx.Reader(files[handed], open=False)
                want = files[handed] if handed != "meta" else (files["bin"] if "bin" in have else files["cbin"])
                if sr.file_bin is None or str(sr.file_bin) != str(want):
                    bad.append({"have": have, "handed": handed, "file_bin": str(sr.file_bin)})
            finally:
                shutil.rmtree(d, ignore_errors=True)
    # the same three entry points spelled as a relative path and through a symbolic link to the folder
    for have in (("bin", "cbin"), ("cbin",)):
        d = tempfile.mkdtemp(prefix="c02_")
        cwd = os.getcwd()
        try:
            real = os.path.join(d, "store")
            os.makedirs(real)
            files = _mk_pair(real, 3000, 385, np.random.default_rng(0), keep=have)
            link = os.path.join(d, "session")
            os.symlink(real, link)
            os.chdir(d)
            for how, base in (("relative", "store"), ("symlink", link), ("relative symlink", "session")):
                for handed in ("bin", "cbin", "meta"):
                    if handed in ("bin", "cbin") and handed not in have:
                        continue
                    pth = os.path.join(base, os.path.basename(files[handed]))
                    sr = spikeglx.Reader(pth)
                    want = handed if handed != "meta" else ("bin" if "bin" in have else "cbin")
                    okp = sr.file_bin is not None and os.path.basename(str(sr.file_bin)) == os.path.basename(files[want]) and sr.shape == (3000, 385) and np.array_equal(sr._raw[7:9, :], files["D"][7:9, :])
                    sr.close()
                    if not okp:
                        bad.append({"have": have, "handed": handed, "spelled": how, "file_bin": str(sr.file_bin), "shape": sr.shape})
        except Exception as e:
            bad.append({"have": have, "relative_or_symlink_raised": repr(e)[:160]})
        finally:
            os.chdir(cwd)
            shutil.rmtree(d, ignore_errors=True)
    # companions named with a UUID (as on the data server) while the data file has none, both bands of the probe in the same folder:
    # each band must resolve to its own header / metadata and open as its own recording
    for uuid_on in ("companions", "all", "none"):
        d = tempfile.mkdtemp(prefix="c02_")
        try:
            U1, U2 = "4f6f1c1b-a17c-4a38-b1a2-3c5f0a9e2b11", "9c2d7e55-0b44-4e0a-8f3e-7d1a6b5c4d22"
            recs = {}
            for band, ns, fs, uu in (("ap", 3100, 30000.0, U1), ("lf", 260, 2500.0, U2)):
                sub = os.path.join(d, "tmp_" + band)
                os.makedirs(sub)
                files = _mk_pair(sub, ns, 385, np.random.default_rng(1 if band == "ap" else 2), keep=("cbin",))
                lines_ = [(f"imSampRate={fs:g}" if ln.startswith("imSampRate=") else f"fileTimeSecs={ns / fs:.10f}" if ln.startswith("fileTimeSecs=") else ln) for ln in open(files["meta"]).read().splitlines()]
                open(files["meta"], "w").write("\n".join(lines_) + "\n")
                stem = f"rec.imec1.{band}"
                for ext in ("cbin", "ch", "meta"):
                    src = os.path.join(sub, f"rec.imec1.ap.{ext}")
                    withu = uuid_on == "all" or (uuid_on == "companions" and ext != "cbin")
                    dst = os.path.join(d, f"{stem}.{uu}.{ext}" if withu else f"{stem}.{ext}")
                    os.rename(src, dst)
                    recs.setdefault(band, {})[ext] = dst
                recs[band]["ns"], recs[band]["fs"], recs[band]["D"] = ns, fs, files["D"]
                shutil.rmtree(sub, ignore_errors=True)
            for band in ("ap", "lf"):
                r = recs[band]
                got = {ext: str(spikeglx._get_companion_file(r["cbin"], "." + ext)) for ext in ("ch", "meta")}
                if got != {"ch": r["ch"], "meta": r["meta"]}:
                    bad.append({"uuid_in_names_of": uuid_on, "band": band, "companions_found": {k: os.path.basename(v) for k, v in got.items()}})
                    continue
                sr = spikeglx.Reader(r["cbin"], sort=False)
                okr = sr.shape == (r["ns"], 385) and sr.fs == r["fs"] and np.array_equal(sr._raw[5:40, :], r["D"][5:40, :])
                sr.close()
                if not okr:
                    bad.append({"uuid_in_names_of": uuid_on, "band": band, "shape": sr.shape, "fs": sr.fs})
        except Exception as e:
            bad.append({"uuid_in_names_of": uuid_on, "raised": repr(e)[:160]})
        finally:
            shutil.rmtree(d, ignore_errors=True)
    return {"failed": bool(bad), "cases": bad}


@harness(PROPERTY, "companion", functions=["spikeglx:Reader.__init__", "spikeglx:_get_companion_file"], replay=replay_companion,
         clause="opening through the data file, the compressed file or the metadata file resolves to the same recording")
def h_companion(H):
    for handed in (".bin", ".cbin", ".meta"):
        S = H.session(f"companion{handed}")

        def body(it, handed=handed):
            fs_, paths = mk_fs(it, symbolic_exists=(".bin", ".cbin"))
            fs_.exists[paths[".meta"].key] = True
            eb, ec = ex_term(fs_, paths[".bin"]), ex_term(fs_, paths[".cbin"])
            it.ctx.assume(z3.Or(eb, ec))
            if handed != ".meta":
                it.ctx.assume(ex_term(fs_, paths[handed]))
            H.input(bin_exists=eb, cbin_exists=ec)
            it.session.contracts[spikeglx.read_meta_data] = lambda it_, a, k: {"typeThis": "imec", "nSavedChans": 385.0, "snsApLfSy": [384.0, 0.0, 1.0]}
            it.session.contracts[spikeglx._conversion_sample2v_from_meta] = lambda it_, a, k: {"ap": "S2V"}
            it.session.contracts[spikeglx.geometry_from_meta] = lambda it_, a, k: (None, None)
            obj = SObj(spikeglx.Reader)
            run_function(it, spikeglx.Reader.__init__, [obj, paths[handed]], {"open": False})
            fb = obj.file_bin
            tag = handed.strip(".")
            if handed == ".meta":
                # the existing data file; when both exist either is the same recording, the uncompressed one is preferred by the code
                is_bin = z3.BoolVal(isinstance(fb, fsmodel.GhostPath) and fb == paths[".bin"])
                is_cbin = z3.BoolVal(isinstance(fb, fsmodel.GhostPath) and fb == paths[".cbin"])
                it.ctx.oblige(f"companion.resolves.{tag}", z3.Or(z3.And(is_bin, eb), z3.And(is_cbin, ec)), "post", "a metadata path resolves to an existing data file of the same recording")
            else:
                it.ctx.oblige(f"companion.resolves.{tag}", z3.BoolVal(fb == paths[handed]), "post")
            it.ctx.oblige(f"companion.meta.{tag}", z3.BoolVal(obj.file_meta_data == paths[".meta"]), "post")
            it.ctx.oblige(f"companion.nbytes.{tag}", z3.BoolVal(fb is not None) if not isinstance(fb, fsmodel.GhostPath) else term(obj.nbytes) == term(fs_.size[fb.key]), "post", "cached size is the size of the resolved file")
        S.explore(body)


# ----------------------------------------------------------------------------- compress / decompress
@harness(PROPERTY, "compress_file", functions=["spikeglx:Reader.compress_file", "spikeglx:Reader.is_mtscomp", "spikeglx:Reader.fs", "spikeglx:Reader.nc"],
         replay=lambda vals, oid: (lambda b: {"failed": bool(b), "cases": b[:3]})(native_failed_recompression() if ".fail." in oid else []),
         clause="in-place compression: final name appears only complete, source removed only after its replacement is complete, untouched on failure")
def h_compress(H):
    for keep in (True, False):
        S = H.session(f"compress.keep{keep}")

        def body(it, keep=keep):
            fs_, paths = mk_fs(it, symbolic_exists=(".cbin", ".ch", ".cbin_tmp"))
            fs_.exists[paths[".bin"].key] = True
            install_mtscomp(it, fs_)
            sr = mk_reader(paths, ".bin")
            b0 = fs_.content[paths[".bin"].key]
            ex0, ct0 = snapshot(fs_)
            tag = f"keep{keep}"
            try:
                out = run_function(it, spikeglx.Reader.compress_file, [sr], {"keep_original": keep})
                failed = False
            except PyRaise as e:
                failed = True
            cb, bn = paths[".cbin"], paths[".bin"]
            if not failed:
                it.ctx.oblige(f"compress.published.{tag}", z3.And(ex_term(fs_, cb), fs_.content[cb.key] == Cf(b0), ex_term(fs_, paths[".ch"]), z3.BoolVal(out == cb)), "post",
                              "on return the .cbin holds the compressed original and the .ch exists")
                it.ctx.oblige(f"compress.lossless.{tag}", Df(fs_.content[cb.key]) == b0, "post", "decompressing it gives back the original bytes")
                if keep:
                    it.ctx.oblige(f"compress.original_kept.{tag}", z3.And(ex_term(fs_, bn), fs_.content[bn.key] == b0, z3.BoolVal(sr.file_bin == bn)), "post")
                else:
                    it.ctx.oblige(f"compress.original_removed_after.{tag}", z3.And(z3.Not(ex_term(fs_, bn)), z3.BoolVal(sr.file_bin == cb)), "post")
                    ops_ = [x[0] for x in fs_.log]
                    it.ctx.oblige(f"compress.order.{tag}", z3.BoolVal(ops_.index("rename") < ops_.index("unlink") and ops_.index("compress") < ops_.index("rename")), "post",
                                  "compress, then rename to the final name, then unlink of the source")
                it.ctx.oblige(f"compress.no_tmp_left.{tag}", z3.Not(ex_term(fs_, paths[".cbin_tmp"])), "post")
            else:
                it.ctx.oblige(f"compress.fail.final_name_unchanged.{tag}", z3.And(ex_term(fs_, cb) == (term(ex0[cb.key])), fs_.content[cb.key] == ct0[cb.key]), "post",
                              "when compression fails part-way no file carrying the final name exists unless it was there (complete) before")
                it.ctx.oblige(f"compress.fail.source_untouched.{tag}", z3.And(ex_term(fs_, bn), fs_.content[bn.key] == b0, z3.BoolVal(sr.file_bin == bn)), "post")
                ch = paths[".ch"]
                it.ctx.oblige(f"compress.fail.published_pair_keeps_its_header.{tag}", z3.Implies(term(ex0[ch.key]) if not isinstance(ex0[ch.key], bool) else z3.BoolVal(ex0[ch.key]), ex_term(fs_, ch)), "post",
                              "a failed compression does not remove the header of a pair published earlier under the final name (that .cbin would no longer open)")
        S.explore(body)


@harness(PROPERTY, "decompress_file", functions=["spikeglx:Reader.decompress_file", "spikeglx:Reader.close", "spikeglx:Reader.is_open"], replay=lambda vals, oid: replay_decompress_elsewhere(vals, oid),
         clause="in-place decompression: compressed source (and its .ch) removed only after the binary is complete")
def h_decompress(H):
    for keep, elsewhere in ((True, False), (False, False), (False, True), (True, True), (False, None), (True, None)):
        S = H.session(f"decompress.keep{keep}" + (".out_elsewhere" if elsewhere else "") + (".out_None" if elsewhere is None else ""))

        def body(it, keep=keep, elsewhere=elsewhere):
            fs_, paths = mk_fs(it, symbolic_exists=(".bin",))
            fs_.exists[paths[".cbin"].key] = True
            fs_.exists[paths[".ch"].key] = True
            install_mtscomp(it, fs_)
            sr = mk_reader(paths, ".cbin")
            c0 = fs_.content[paths[".cbin"].key]
            tag = f"keep{keep}" + (".out_elsewhere" if elsewhere else "") + (".out_None" if elsewhere is None else "")
            kw = {"keep_original": keep}
            if elsewhere is None:
                kw["out"] = None          # the keyword spelled out with its "no value" (a wrapper forwarding its own default): the default location
            cb, bn, ch = paths[".cbin"], paths[".bin"], paths[".ch"]
            if elsewhere:
                # documented option: the binary is asked for under another name in another folder, where a compressed copy of some recording (header included) may sit
                bn = fsmodel.GhostPath(fs_, ("archive",), "copy.imec0.ap.bin")
                kw["out"] = bn
                others = {sfx: bn.with_suffix(sfx) for sfx in (".ch", ".cbin", ".meta")}
                before = {}
                for sfx, p_ in others.items():
                    fs_.exists[p_.key] = SV(z3.Bool(fresh_name("other" + sfx.replace(".", "_"))))
                    fs_.content[p_.key] = z3.Const(fresh_name("othercontent"), Bytes)
                    before[sfx] = (ex_term(fs_, p_), fs_.content[p_.key])
                fs_.exists[bn.key] = SV(z3.Bool(fresh_name("out_exists")))
                fs_.content[bn.key] = z3.Const(fresh_name("outcontent"), Bytes)
            try:
                out = run_function(it, spikeglx.Reader.decompress_file, [sr], kw)
                failed = False
            except PyRaise as e_:
                failed = True
                if elsewhere and not isinstance(e_.exc, RuntimeError):
                    it.ctx.oblige(f"decompress.no_unexpected_exception.{tag}", z3.BoolVal(False), "post", f"the only exception is a failure of mtscomp itself (got {type(e_.exc).__name__})")
            if elsewhere:
                it.ctx.oblige(f"decompress.nothing_else_touched.{tag}", z3.And(*[z3.And(ex_term(fs_, others[sfx]) == before[sfx][0], fs_.content[others[sfx].key] == before[sfx][1]) for sfx in others]), "post",
                              "the in-place variant removes the compressed source and its own header, nothing else: files of another recording next to the output keep existing with their content")
            if not failed:
                it.ctx.oblige(f"decompress.published.{tag}", z3.And(ex_term(fs_, bn), fs_.content[bn.key] == Df(c0), z3.BoolVal(out == bn)), "post")
                if keep:
                    it.ctx.oblige(f"decompress.source_kept.{tag}", z3.And(ex_term(fs_, cb), fs_.content[cb.key] == c0, ex_term(fs_, ch), z3.BoolVal(sr.file_bin == cb)), "post")
                else:
                    it.ctx.oblige(f"decompress.source_removed_after.{tag}", z3.And(z3.Not(ex_term(fs_, cb)), z3.Not(ex_term(fs_, ch)), z3.BoolVal(sr.file_bin == bn)), "post")
                    ops_ = [x[0] for x in fs_.log]
                    it.ctx.oblige(f"decompress.order.{tag}", z3.BoolVal("decompress" in ops_ and "unlink" in ops_ and ops_.index("decompress") < ops_.index("unlink")), "post",
                                  "the source is removed after a decompression that wrote its replacement")
            else:
                it.ctx.oblige(f"decompress.fail.source_untouched.{tag}", z3.And(ex_term(fs_, cb), fs_.content[cb.key] == c0, ex_term(fs_, ch), z3.BoolVal(sr.file_bin == cb)), "post")
        S.explore(body)
    # lossless round trip as a lemma over the two contracts
    b = z3.Const("b", Bytes)
    H.lemma("roundtrip.lossless", [z3.ForAll([b], Df(Cf(b)) == b)], Df(Cf(z3.Const("orig", Bytes))) == z3.Const("orig", Bytes), "compress followed by decompress reproduces the binary (A-MTSCOMP)")


@harness(PROPERTY, "decompress_to_scratch", functions=["spikeglx:Reader.decompress_to_scratch", "spikeglx:Reader.decompress_file"], replay=lambda vals, oid: replay_scratch_meta(vals, oid),
         clause="decompression to scratch: the final .bin name carries only a complete file, whatever an earlier failed attempt left behind; the source is untouched")
def h_scratch(H):
    for with_dir in (False, True):
        S = H.session(f"scratch.dir{with_dir}")

        def body(it, with_dir=with_dir):
            fs_, paths = mk_fs(it)
            fs_.exists[paths[".cbin"].key] = True
            fs_.exists[paths[".ch"].key] = True
            fs_.exists[paths[".meta"].key] = True
            install_mtscomp(it, fs_)
            sr = mk_reader(paths, ".cbin")
            c0 = fs_.content[paths[".cbin"].key]
            if with_dir:
                sd = fsmodel.GhostPath(fs_, ("scratch",), "job1")
                target = sd.joinpath(paths[".cbin"].name).with_suffix(".bin")
            else:
                sd = None
                target = paths[".bin"]
            tmp = target.with_suffix(".bin_temp")
            for p in (target, tmp) + ((target.with_suffix(".meta"),) if with_dir else ()):
                fs_.exists[p.key] = SV(z3.Bool(fresh_name("exists")))          # anything an earlier (failed) attempt - or a job on another recording of the same name - may have left
                fs_.content[p.key] = z3.Const(fresh_name("leftover"), Bytes)
            # a file under the final name is complete (this is what the function must preserve): it holds the decompressed recording
            it.ctx.assume(z3.Implies(ex_term(fs_, target), fs_.content[target.key] == Df(c0)))
            tag = f"dir{with_dir}"
            try:
                out = run_function(it, spikeglx.Reader.decompress_to_scratch, [sr], {"scratch_dir": sd})
                failed = False
            except PyRaise:
                failed = True
            it.ctx.oblige(f"scratch.final_name_complete.{tag}", z3.Implies(ex_term(fs_, target), fs_.content[target.key] == Df(c0)), "post",
                          "no file carrying the final name exists unless it is complete - on return and on failure")
            it.ctx.oblige(f"scratch.source_untouched.{tag}", z3.And(ex_term(fs_, paths[".cbin"]), fs_.content[paths[".cbin"].key] == c0, ex_term(fs_, paths[".ch"])), "post")
            if not failed:
                it.ctx.oblige(f"scratch.returns_bin.{tag}", z3.And(z3.BoolVal(out == target), ex_term(fs_, target)), "post")
                if with_dir:
                    it.ctx.oblige(f"scratch.meta_copied.{tag}", z3.And(ex_term(fs_, target.with_suffix(".meta")), fs_.content[target.with_suffix(".meta").key] == fs_.content[paths[".meta"].key]), "post",
                                  "transparent: the scratch copy opens as the same recording - the metadata next to it is this recording's, whatever was in the scratch folder before")
        S.explore(body)


# ----------------------------------------------------------------------------- bounded: real mtscomp
FIXM = os.path.join(os.path.dirname(spikeglx.__file__), "tests", "fixtures", "sample3B_g0_t0.imec1.ap.meta")


def _mk_pair(d, ns, nc, rng, keep=("bin", "cbin"), chunk_s=0.05, smooth=False):
    b = os.path.join(d, "rec.imec1.ap.bin")
    D = rng.integers(-32768, 32768, size=(ns, nc), dtype=np.int16)
    if smooth:      # compressible content: the .cbin is much smaller than the .bin
        D = np.cumsum(rng.integers(-3, 4, size=(ns, nc)), axis=0).astype(np.int16)
    D.tofile(b)
    with open(FIXM) as f, open(b[:-3] + "meta", "w") as g:
        for line in f:
            if line.startswith("fileSizeBytes"):
                line = f"fileSizeBytes={ns * nc * 2}\n"
            elif line.startswith("fileTimeSecs"):
                line = f"fileTimeSecs={ns / 30000:.10f}\n"
            elif line.startswith("nSavedChans"):
                line = f"nSavedChans={nc}\n"
            elif line.startswith("snsApLfSy"):
                line = f"snsApLfSy={nc - 1},0,1\n"
            g.write(line)
    files = {"bin": b, "meta": b[:-3] + "meta", "cbin": b[:-3] + "cbin", "D": D}
    if "cbin" in keep:
        sr = spikeglx.Reader(b, sort=False)
        sr.compress_file(keep_original=True, chunk_duration=chunk_s)
        sr.close()
    if "bin" not in keep:
        os.unlink(b)
    return files


def replay_decompress_elsewhere(vals, oid):
    """native: in-place decompression into another folder that holds a compressed copy (same stem as the output) of another recording"""
    rng = np.random.default_rng(9)
    bad = []
    d = tempfile.mkdtemp(prefix="c02_")
    try:
        a_dir, b_dir = os.path.join(d, "a"), os.path.join(d, "archive")
        os.makedirs(a_dir)
        os.makedirs(b_dir)
        fa = _mk_pair(a_dir, 1501, 385, rng, keep=("cbin",))
        fb = _mk_pair(b_dir, 1400, 385, rng, keep=("cbin",))
        orig_a = fa["D"].tobytes()
        ch_b = fb["cbin"][:-4] + "ch"
        before = {f: open(f, "rb").read() for f in (fb["cbin"], ch_b, fb["meta"])}
        out = pathlib.Path(fb["cbin"]).with_suffix(".bin")
        sr = spikeglx.Reader(fa["cbin"], sort=False)
        raised = None
        try:
            sr.decompress_file(keep_original=False, out=out)
        except Exception as e:
            raised = repr(e)[:120]
        try:
            sr.close()
        except Exception:
            pass
        after_ok = all(os.path.exists(f) and open(f, "rb").read() == b_ for f, b_ in before.items())
        src_gone = not os.path.exists(fa["cbin"]) and not os.path.exists(fa["cbin"][:-4] + "ch")
        complete = os.path.exists(out) and open(out, "rb").read() == orig_a
        if raised or not after_ok or not src_gone or not complete:
            bad.append({"decompress_file(keep_original=False, out=<another folder>)": {"raised": raised, "files_of_the_other_recording_intact": after_ok, "source_and_its_header_removed": src_gone, "output_complete": complete}})
        # the keyword spelled out with None (a wrapper forwarding its own default): the binary goes to the default location before the source is removed
        c_dir = os.path.join(d, "c")
        os.makedirs(c_dir)
        fc = _mk_pair(c_dir, 1501, 385, rng, keep=("cbin",))
        orig_c = fc["D"].tobytes()
        sr = spikeglx.Reader(fc["cbin"], sort=False)
        raised = None
        try:
            sr.decompress_file(keep_original=False, out=None)
        except Exception as e:
            raised = repr(e)[:120]
        try:
            sr.close()
        except Exception:
            pass
        binp = fc["cbin"][:-4] + "bin"
        recoverable = (os.path.exists(binp) and open(binp, "rb").read() == orig_c) or os.path.exists(fc["cbin"])
        if not recoverable:
            bad.append({"decompress_file(keep_original=False, out=None)": {"raised": raised, "files_left": sorted(os.listdir(c_dir)), "recording_recoverable": False}})
    finally:
        shutil.rmtree(d, ignore_errors=True)
    return {"failed": bool(bad), "cases": bad}


def replay_scratch_meta(vals, oid):
    """native: a scratch folder shared by two recordings of the same file name: each scratch copy opens as its own recording"""
    rng = np.random.default_rng(10)
    bad = []
    d = tempfile.mkdtemp(prefix="c02_")
    try:
        scratch = pathlib.Path(d) / "scratch"
        for k_ in range(2):
            sub = os.path.join(d, f"session{k_}")
            os.makedirs(sub)
            f = _mk_pair(sub, 1501 + 10 * k_, 385, rng, keep=("cbin",))
            with open(f["meta"], "a") as g:
                g.write(f"userNotes=session{k_}\n")
            sr = spikeglx.Reader(f["cbin"], sort=False)
            b = sr.decompress_to_scratch(scratch_dir=scratch)
            sr.close()
            b = b.file_bin if hasattr(b, "file_bin") else pathlib.Path(b)
            same_meta = open(b.with_suffix(".meta")).read() == open(f["meta"]).read()
            same_data = open(b, "rb").read() == f["D"].tobytes()
            if not same_meta or not same_data:
                bad.append({"recording": k_, "scratch_metadata_is_its_own": same_meta, "scratch_binary_is_its_own": same_data})
            os.unlink(b)       # what a job does when it is done with the binary: the metadata stays behind
    finally:
        shutil.rmtree(d, ignore_errors=True)
    return {"failed": bool(bad), "cases": bad}


@bounded(PROPERTY, "native_transparent", bound="real mtscomp: ns in {chunk-1, chunk, chunk+1, 2*chunk+7} (chunk = 1500 samples) x nc=385 (thorough: also 17, 2): every slice start/stop within +-2 of each chunk boundary, "
         "steps 1, 2, 7, ints incl. negative, channel slices/lists; byte compare of compress->decompress; companion resolution on real files; failure injected into mtscomp at each chunk (thorough)",
         clause="compressed and uncompressed indistinguishable through the reader; lossless; injected failures")
def b_native(B):
    rng = np.random.default_rng(B.seed)
    chunk = 1500
    sizes = [chunk + 1, 2 * chunk + 7] if B.tier == "quick" else [chunk - 1, chunk, chunk + 1, 2 * chunk + 7]
    for ns in sizes:
        for nc in ([385] if B.tier == "quick" else [385, 17]):
            d = tempfile.mkdtemp(prefix="c02_")
            try:
                if nc != 385:
                    continue
                files = _mk_pair(d, ns, nc, rng)
                a = spikeglx.Reader(files["bin"], sort=False)
                c = spikeglx.Reader(files["cbin"], sort=False)
                ok = a.shape == c.shape
                bounds = sorted({0, ns} | {k * chunk + dlt for k in range(0, ns // chunk + 1) for dlt in (-2, -1, 0, 1, 2) if 0 <= k * chunk + dlt <= ns})
                bad = []
                for i, s0 in enumerate(bounds):
                    for s1 in bounds[i:i + 7]:
                        for st in (1, 2, 7):
                            if not np.array_equal(a[s0:s1:st, :], c[s0:s1:st, :]):
                                bad.append((s0, s1, st))
                for n in sorted({n_ for n_ in (0, 1, chunk - 1, chunk, ns - 1, -1, -ns) if -ns <= n_ < ns}):       # valid integer indices only
                    if not np.array_equal(a[n, :], c[n, :]) or not np.array_equal(a[n, 5], c[n, 5]):
                        bad.append(("int", n))
                # the same integer held in a NumPy scalar (an index taken from an array of spike times, say), alone and with a channel selector
                for n in sorted({n_ for n_ in (0, chunk - 1, chunk, ns - 1, -1) if -ns <= n_ < ns}):       # valid integer indices only
                    for ty in (np.int64, np.int32, np.intp):
                        try:
                            r_a, r_c = a[ty(n)], c[ty(n)]
                            r_a2, r_c2 = a[ty(n), 3:9], c[ty(n), 3:9]
                            r_a3, r_c3 = a.read(nsel=ty(n), sync=False), c.read(nsel=ty(n), sync=False)       # the method behind the brackets, called directly
                        except Exception as e:
                            bad.append(("numpy int", ty.__name__, n, repr(e)[:60]))
                            continue
                        if np.shape(r_a) != np.shape(r_c) or not np.array_equal(r_a, r_c) or np.shape(r_a2) != np.shape(r_c2) or not np.array_equal(r_a2, r_c2) \
                                or np.shape(r_a3) != np.shape(r_c3) or not np.array_equal(r_a3, r_c3):
                            bad.append(("numpy int", ty.__name__, n, "bin", np.shape(r_a), "cbin", np.shape(r_c), "read()", np.shape(r_c3)))
                for cs in (slice(None), slice(3, 40, 5), [0, 7, 384], slice(None, None, -1)):
                    if not np.array_equal(a[10:chunk + 10, cs], c[10:chunk + 10, cs]):
                        bad.append(("csel", repr(cs)))
                neg = []
                for sl in (slice(None, None, -1), slice(chunk + 5, 3, -2)):
                    if not np.array_equal(a[sl, :], c[sl, :]):
                        neg.append(repr(sl))
                # several sample indices at once (list, integer array, boolean mask, range): NumPy semantics on the flat file
                fancy = []
                for nm_, sel_ in (("list", [3, chunk, 5]), ("array", np.array([0, ns - 1])), ("one-element list", [7]), ("range", range(3, 9)), ("boolean mask", np.arange(ns) % 700 == 0)):
                    try:
                        r_c = c[sel_]
                        if np.shape(r_c) != np.shape(a[sel_]) or not np.array_equal(r_c, a[sel_]):
                            fancy.append((nm_, "shape on .bin", np.shape(a[sel_]), "on .cbin", np.shape(r_c)))
                    except NotImplementedError as e:
                        fancy.append((nm_, "raises on .cbin: " + repr(e)[:70]))
                a.close()
                # lossless
                c.decompress_file(keep_original=True, out=pathlib.Path(d) / "back.bin")
                c.close()
                same = open(os.path.join(d, "back.bin"), "rb").read() == open(files["bin"], "rb").read()
                B.case(("transparent", ns, nc), ok and not bad and same, detail={"shape_ok": ok, "mismatching_selectors": bad[:5], "lossless": same}, inputs={"kind": "transparent", "ns": ns})
                if neg:
                    B.case(("negative_step", ns), False, detail=f"negative-step slices differ on .cbin: {neg}", inputs={"kind": "negative_step_cbin"})
                if fancy:
                    B.case(("sample_index_lists", ns), False, detail=f"lists / arrays / ranges of sample indices on .cbin: {fancy}", inputs={"kind": "fancy_sample_index_cbin"})
            finally:
                shutil.rmtree(d, ignore_errors=True)
    r = replay_companion({}, "")
    B.case("companion_real_files", not r["failed"], detail=r)
    # a float32 flat binary without metadata (the format the destriping writes), with a conversion factor, read several times through both files: the same values each time
    d = tempfile.mkdtemp(prefix="c02_")
    try:
        ns_, nc_ = 2500, 7
        Df = rng.integers(-2000, 2000, size=(ns_, nc_)).astype(np.float32)          # (whole numbers: mtscomp differences stay exact in single precision)
        fb = os.path.join(d, "flat.bin")
        Df.tofile(fb)
        kw = dict(ns=ns_, nc=nc_, fs=1000, dtype=np.float32, s2v=0.5)
        s_b = spikeglx.Reader(fb, **kw)
        cbf = s_b.compress_file(keep_original=True)
        s_c = spikeglx.Reader(cbf, **kw)
        badf = []
        for rep in range(3):
            for sl in (slice(10, 40), slice(0, 5), slice(2400, 2500), slice(990, 1010)):
                xb, xc = s_b[sl, :], s_c[sl, :]
                if xb.shape != xc.shape or not np.array_equal(xb, xc) or not np.allclose(xb, Df[sl] * 0.5):
                    badf.append((rep, sl.start, sl.stop))
        s_b.close()
        s_c.close()
        B.case("float32_flat_binary_read_repeatedly", not badf, detail={"reads_that_differ (repetition, start, stop)": badf[:5]}, inputs={"kind": "float32_flat"})
    except Exception as e:
        B.case("float32_flat_binary_read_repeatedly", False, detail=repr(e)[:200], inputs={"kind": "float32_flat"})
    finally:
        shutil.rmtree(d, ignore_errors=True)
    # the same Reader object across in-place conversions: after compress_file / decompress_file(keep_original=False) the object is re-opened on the new file
    for ns in (chunk + 1, 2 * chunk + 7):
        d = tempfile.mkdtemp(prefix="c02_")
        try:
            files = _mk_pair(d, ns, 385, rng, keep=("bin",), smooth=(ns == 2 * chunk + 7))
            D = files["D"]
            sr = spikeglx.Reader(files["bin"], sort=False)
            want = sr[:, :].copy()
            hist = []
            sr.compress_file(keep_original=False, chunk_duration=0.05)
            sr.close()      # NB Reader.close() leaves is_open True and reading a closed memmap crashes the interpreter: always re-open explicitly (outside the statement of C02)
            sr.open()
            hist.append(("after compress_file in place", sr.shape == (ns, 385) and str(sr.file_bin).endswith(".cbin") and np.array_equal(sr[:, :], want) and not os.path.exists(files["bin"])))
            sr.decompress_file(keep_original=False)
            sr.open()
            hist.append(("after decompress_file in place", sr.shape == (ns, 385) and str(sr.file_bin).endswith(".bin") and np.array_equal(sr[:, :], want)
                         and np.array_equal(np.fromfile(files["bin"], dtype=np.int16).reshape(ns, 385), D) and not os.path.exists(files["cbin"])))
            sr.close()
            sr.open()
            hist.append(("re-opened once more", sr.shape == (ns, 385) and np.array_equal(sr[ns - 3:, :], want[ns - 3:])))
            sr.close()
            # a fresh Reader built on the compressed file, decompressed in place, then re-opened: sizes cached at construction belong to the .cbin
            s1 = spikeglx.Reader(files["bin"], sort=False)
            cb = s1.compress_file(keep_original=False, chunk_duration=0.05)
            s1.close()
            s2 = spikeglx.Reader(cb, sort=False)
            ok_c = s2.shape == (ns, 385) and np.array_equal(s2[:, :], want)
            s2.decompress_file(keep_original=False)
            s2.open()
            hist.append(("reader built on the .cbin, decompressed in place and re-opened", ok_c and s2.shape == (ns, 385) and s2._raw.shape == (ns, 385) and np.array_equal(s2[:, :], want)))
            s2.close()
            B.case(("in_place_history", ns), all(o for _, o in hist), detail=[h for h, o in hist if not o])
        finally:
            shutil.rmtree(d, ignore_errors=True)
    # failure injected inside mtscomp at each chunk
    import unittest.mock as um
    for keep in (True, False):
        nchunks = 3
        for fail_at in range(nchunks):
            d = tempfile.mkdtemp(prefix="c02_")
            try:
                files = _mk_pair(d, 2 * chunk + 7, 385, rng, keep=("bin",))
                orig = open(files["bin"], "rb").read()
                calls = {"n": 0}
                real = mtscomp.Writer._compress_chunk if hasattr(mtscomp.Writer, "_compress_chunk") else None
                if real is None:
                    break

                def boom(self, *a, **k):
                    if calls["n"] == fail_at:
                        raise IOError("injected failure")
                    calls["n"] += 1
                    return real(self, *a, **k)
                sr = spikeglx.Reader(files["bin"], sort=False)
                raised = False
                with um.patch.object(mtscomp.Writer, "_compress_chunk", boom):
                    try:
                        sr.compress_file(keep_original=keep, chunk_duration=0.05)
                    except Exception:
                        raised = True
                sr.close()
                ok = raised and not os.path.exists(files["cbin"]) and os.path.exists(files["bin"]) and open(files["bin"], "rb").read() == orig
                B.case(("inject_compress", keep, fail_at), ok, detail={"raised": raised, "cbin_exists": os.path.exists(files["cbin"]), "bin_exists": os.path.exists(files["bin"])})
            finally:
                shutil.rmtree(d, ignore_errors=True)


def native_failed_recompression(keeps=(True, False), fails=(0, 2)):
    """a complete .cbin/.ch pair is already published; a second compression of the .bin fails at chunk k: the published pair must still open and read"""
    import unittest.mock as um
    real = getattr(mtscomp.Writer, "_compress_chunk", None)
    bad = []
    if real is None:
        return bad
    rng = np.random.default_rng(5)
    for keep in keeps:
        for fail_at in fails:
            d = tempfile.mkdtemp(prefix="c02_")
            try:
                files = _mk_pair(d, 2 * 1500 + 7, 385, rng, keep=("bin", "cbin"))
                want = np.fromfile(files["bin"], dtype=np.int16).reshape(-1, 385)
                calls = {"n": 0}

                def boom(self, *a, **k):
                    if calls["n"] == fail_at:
                        raise IOError("injected failure")
                    calls["n"] += 1
                    return real(self, *a, **k)
                sr = spikeglx.Reader(files["bin"], sort=False)
                raised = False
                with um.patch.object(mtscomp.Writer, "_compress_chunk", boom):
                    try:
                        sr.compress_file(keep_original=keep, chunk_duration=0.05)
                    except Exception:
                        raised = True
                sr.close()
                try:
                    s2 = spikeglx.Reader(files["cbin"], sort=False)
                    ok = raised and s2.shape == want.shape and np.array_equal(s2._raw[1490:1510, :], want[1490:1510, :])
                    s2.close()
                    note = "" if ok else "published pair reads differently"
                except Exception as e:
                    ok, note = False, "published pair no longer opens: " + repr(e)[:120]
                if not ok:
                    bad.append({"keep_original": keep, "failed_at_chunk": fail_at, "second_compression_raised": raised, "what": note})
            finally:
                shutil.rmtree(d, ignore_errors=True)
    return bad


@bounded(PROPERTY, "native_scratch_retry", bound="real mtscomp: decompress_to_scratch with a failure injected at chunk k in {0,1,2} of 3, then retried without failure; scratch dir given / not given; a second compress_file failing at chunk k over an already published pair; compress_file over a stale / truncated compressed pair of the same shape, keeping and removing the source",
         clause="two-step fault history: nothing left by a failed attempt is ever published under the final name")
def b_retry(B):
    badr = native_failed_recompression(fails=(0, 2) if B.tier == "quick" else (0, 1, 2))
    B.case("failed_recompression_keeps_the_published_pair", not badr, detail=badr[:3], inputs={"kind": "failed_recompression"})
    import unittest.mock as um
    rng = np.random.default_rng(B.seed)
    for with_dir in (True, False):
        for fail_at in (0, 1, 2):
            d = tempfile.mkdtemp(prefix="c02_")
            try:
                files = _mk_pair(d, 3007, 385, rng, keep=("cbin",))
                orig = files["D"].tobytes()
                scratch = pathlib.Path(d) / "scratch" if with_dir else None
                calls = {"n": 0}
                real = mtscomp.Reader.read_chunk

                def boom(self, *a, **k):
                    if calls["n"] == fail_at:
                        calls["n"] += 1
                        raise IOError("injected failure")
                    calls["n"] += 1
                    return real(self, *a, **k)
                sr = spikeglx.Reader(files["cbin"], sort=False)
                raised = False
                with um.patch.object(mtscomp.Reader, "read_chunk", boom):
                    try:
                        sr.decompress_to_scratch(scratch_dir=scratch)
                    except Exception:
                        raised = True
                target = (scratch / "rec.imec1.ap.bin") if with_dir else pathlib.Path(files["bin"])
                ok1 = (not target.exists()) or target.read_bytes() == orig
                out = sr.decompress_to_scratch(scratch_dir=scratch)
                sr.close()
                ok2 = pathlib.Path(out).read_bytes() == orig and os.path.exists(files["cbin"])
                B.case(("scratch_retry", with_dir, fail_at), raised and ok1 and ok2, detail={"first_attempt_raised": raised, "final_name_clean_after_failure": ok1, "complete_after_retry": ok2})
            finally:
                shutil.rmtree(d, ignore_errors=True)


    # compression over what an earlier compression of another state of the recording left behind (same shape): the published pair is
    # the compression of the binary handed over now, and the source goes only when that pair is complete
    for stale_kind in ("earlier_content", "truncated_copy"):
        for keep in (True, False):
            d = tempfile.mkdtemp(prefix="c02_")
            try:
                files = _mk_pair(d, 3007, 385, rng, keep=("bin", "cbin"), smooth=True)
                if stale_kind == "truncated_copy":
                    raw_c = open(files["cbin"], "rb").read()
                    open(files["cbin"], "wb").write(raw_c[: len(raw_c) // 2])
                newD = np.cumsum(rng.integers(-3, 4, size=(3007, 385)), axis=0).astype(np.int16)
                if stale_kind == "earlier_content":
                    newD.tofile(files["bin"])            # the recording was rewritten after the earlier compression
                else:
                    newD = files["D"]
                sr = spikeglx.Reader(files["bin"], sort=False)
                out = sr.compress_file(keep_original=keep, chunk_duration=0.05)
                sr.close()
                back = pathlib.Path(d) / "back.bin"
                sc = spikeglx.Reader(out, sort=False)
                sc.decompress_file(keep_original=True, out=back)
                sc.close()
                okc = back.read_bytes() == newD.tobytes() and (keep == os.path.exists(files["bin"]))
                B.case(("compress_over_stale_pair", stale_kind, keep), okc, detail={"decompressed_equals_current_binary": back.read_bytes() == newD.tobytes(), "source_present": os.path.exists(files["bin"])})
            except Exception as e:
                B.case(("compress_over_stale_pair", stale_kind, keep), False, detail=repr(e)[:200])
            finally:
                shutil.rmtree(d, ignore_errors=True)


# ----------------------------------------------------------------------------- contracts of dependencies this property rests on (re-checked here)
from pyvc.api import depends  # noqa: E402
depends(PROPERTY, "C11", ["open_cbin", "open_int16"])      # same shape through .bin and .cbin: both branches of Reader.open expose the samples present
