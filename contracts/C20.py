"""C20 - denoising, smoothing and counting utilities conserve what they must.

Functions under contract: ibldsp.smooth.rolling_window (output length), ibldsp.smooth.lp (output length), the per-bin peeling rule of
ibldsp.spiketrains._spikes_venn (conservation lemma).  Rank-reduction identities (cadzow.denoise, voltage.svd_denoise_npx), Savitzky-Golay polynomial
reproduction / NaN filling, constants through smoothers, Venn conservation end to end, stack: bounded stand-in (numerics / pandas).
"""
import numpy as np
import z3

import ibldsp.cadzow as CZ
import ibldsp.fourier as F
import ibldsp.smooth as SM
import ibldsp.spiketrains as ST
import ibldsp.voltage as V
from pyvc.api import harness, bounded, property_meta, run_function, depends
from pyvc.core import SV, term, fresh_name
from pyvc import arrays as A

PROPERTY = "C20"
property_meta(
    PROPERTY, level="other",
    trusted_base=["A-PY (incl. banker's rounding of round())", "A-NP-INDEX", "A-NP-SPEC: np.convolve output lengths, np.pad(mode='edge')", "ft.lp keeps the length (C18)",
                  "SVD / least squares / interpolation are numerics: bounded only"],
    explanation="rolling_window: for every signal length and every window length >= 3, odd and even (symbolic, with Python's half-to-even rounding) the output has the input's length; smooth.lp: output length == input length for every positive padding; "
                "Venn peeling: per bin, sorter j is marked in exactly c_j of the max-count levels (arithmetic lemma about the rule the code applies), hence every spike is attributed once. Everything numeric: bounded stand-in.")


def replay_traj(vals, oid):
    """native: the index matrix for every n up to 64, and a plane wave at rank one on layouts of 5, 9, 13 rows"""
    bad = []
    for n in range(1, 65):
        m = CZ.traj_matrix_indices(n)
        if m.ndim != 2 or m.min() < 0 or m.max() > n - 1 or sorted(set(m.ravel().tolist())) != list(range(n)) or m.shape[0] + m.shape[1] != n + 1:
            bad.append({"n": n, "shape": list(m.shape), "largest_index": int(m.max())})
    return {"failed": bool(bad), "cases": bad[:4]}


@harness(PROPERTY, "traj_matrix_indices", functions=["ibldsp.cadzow:traj_matrix_indices"], replay=replay_traj,
         clause="trajectory-matrix rank reduction returns its input unchanged at full rank / a plane wave at rank one: the index matrix addresses existing traces only, each of them, constant along anti-diagonals")
def h_traj(H):
    S = H.session("traj_matrix_indices")

    def body(it):
        from pyvc import interp as I
        n = z3.Int("n")
        it.ctx.assume(z3.And(n >= 1, n <= 100000))
        H.input(n=n)
        m = run_function(it, CZ.traj_matrix_indices, [SV(n)])
        if not isinstance(m, A.SArr) or m.ndim != 2:
            raise I.Unsupported("traj_matrix_indices does not return a 2-d index array")
        nr, nc_ = A.T(m.shape[0]), A.T(m.shape[1])
        r, c, j = z3.Ints("r c j")
        it.ctx.oblige("traj.shape", z3.And(nr >= 1, nc_ >= 1, nr + nc_ == n + 1), "post", "rows + columns == n + 1: the matrix holds each of the n traces on one anti-diagonal", assume=False)
        it.ctx.oblige("traj.addresses_existing_traces", A.forall([r, c], lambda: z3.Implies(z3.And(r >= 0, r < nr, c >= 0, c < nc_), z3.And(m.read((r, c)) >= 0, m.read((r, c)) < n))), "post",
                      "every entry is the index of one of the n traces (an entry beyond the last trace would stay zero in the embedding and raise its rank)", assume=False)
        it.ctx.oblige("traj.constant_along_anti_diagonals", A.forall([r, c], lambda: z3.Implies(z3.And(r >= 0, r < nr, c >= 0, c < nc_), m.read((r, c)) == r + (nc_ - 1 - c))), "post",
                      "entry (r, c) is trace r + (ncols - 1 - c): the Toeplitz structure whose rank-one embedding a plane wave has", assume=False)
    S.explore(body)


def replay_rolling(vals, oid):
    window = oid.rsplit(".", 1)[-1] if oid.rsplit(".", 1)[-1] in ("flat", "hanning", "hamming", "bartlett", "blackman") else "blackman"
    k, n = vals.get("k"), vals.get("n")
    k = k if isinstance(k, int) and 1 <= k <= 200 else 3
    wl = 2 * k if ".even." in oid else 2 * k + 1
    n = n if isinstance(n, int) and wl <= n <= 20000 else 4 * wl + 3
    bad = []
    for nn, w_ in ((n, wl), (57, 4 if ".even." in oid else 5), (200, 12 if ".even." in oid else 11)):
        y = SM.rolling_window(np.full(nn, 3.0), window_len=w_, window=window)
        if y.shape != (nn,) or not np.allclose(y, 3.0):
            bad.append({"n": nn, "window_len": w_, "window": window, "output_length": int(y.shape[0]), "constant_kept": bool(y.size and np.allclose(y, 3.0))})
    return {"failed": bool(bad), "cases": bad}


@harness(PROPERTY, "rolling_window_length", functions=["ibldsp.smooth:rolling_window"], replay=replay_rolling, clause="smoothers keep the input length")
def h_rolling(H):
    for window in ("flat", "hanning", "blackman"):
        S = H.session(f"rolling.{window}")

        def body(it, window=window):
            n, k = z3.Ints("n k")
            it.ctx.assume(z3.And(k >= 1, n >= 2 * k + 1))
            wl = 2 * k + 1                      # odd window length >= 3
            H.input(n=n, k=k)
            x = A.fresh_array("x", "float64", (n,))
            y = run_function(it, SM.rolling_window, [x], {"window_len": SV(wl), "window": window})
            it.ctx.oblige(f"rolling.length.{window}", z3.And(z3.BoolVal(y.ndim == 1), A.T(y.shape[0]) == n), "post", "output length == input length for every odd window length")
        S.explore(body)
        Se = H.session(f"rolling.even.{window}")

        def body_even(it, window=window):
            n, k = z3.Ints("n k")
            it.ctx.assume(z3.And(k >= 2, n >= 2 * k))
            wl = 2 * k                          # even window length >= 4: accepted by the function without any check
            H.input(n=n, k=k)
            x = A.fresh_array("x", "float64", (n,))
            y = run_function(it, SM.rolling_window, [x], {"window_len": SV(wl), "window": window})
            it.ctx.oblige(f"rolling.length.even.{window}", z3.And(z3.BoolVal(y.ndim == 1), A.T(y.shape[0]) == n), "post", "output length == input length for every even window length too")
        Se.explore(body_even)
    S = H.session("rolling.short_window")

    def body2(it):
        n = z3.Int("n")
        it.ctx.assume(n >= 2)
        x = A.fresh_array("x", "float64", (n,))
        y = run_function(it, SM.rolling_window, [x], {"window_len": 1})
        it.ctx.oblige("rolling.window_lt_3_identity", z3.BoolVal(y is x), "post")
    S.explore(body2)


@harness(PROPERTY, "smooth_lp_length", functions=["ibldsp.smooth:lp"], clause="frequency-domain smoother keeps the input length")
def h_lp(H):
    S = H.session("smooth.lp")

    def body(it):
        n = z3.Int("n")
        pad = z3.Real("pad")
        it.ctx.assume(z3.And(n >= 1, pad > 0, pad <= 1))
        ts = A.fresh_array("ts", "float64", (n,))
        seen = {}

        def ftlp(it_, a, k):
            seen["in_len"] = A.T(a[0].shape[0])
            return A.fresh_array("lp", "float64", a[0].shape)
        it.session.contracts[F.lp] = ftlp
        out = run_function(it, SM.lp, [ts, [0.1, 0.15]], {"pad": SV(pad)})
        it.ctx.oblige("smooth_lp.length", A.T(out.shape[0]) == n, "post", "edge padding is removed again: output length == input length (needs a positive pad)")
        it.ctx.oblige("smooth_lp.padded_both_sides", (seen["in_len"] - n) % 2 == 0, "post")
    S.explore(body)


@harness(PROPERTY, "venn_peeling_lemma", functions=[], clause="spike-coincidence counting attributes every spike of every sorter to exactly one Venn region")
def h_venn(H):
    # per bin with counts c_j and maximum m: at level i in [0, m) sorter j is marked iff c_j >= m - i.  Then the levels at which j is
    # marked are exactly i in [m - c_j, m): c_j of them, so the marks of sorter j summed over all regions equal its spikes in the bin.
    c, m, i = z3.Ints("c m i")
    H.lemma("venn.mark_iff_level", [c >= 0, c <= m, i >= 0, i < m], (c >= m - i) == (i >= m - c), "level i marks sorter j iff i >= m - c_j")
    H.lemma("venn.levels_form_an_interval_of_length_c", [c >= 0, c <= m], z3.And(m - c >= 0, m - (m - c) == c), "the marking levels are [m - c_j, m): exactly c_j levels")
    H.lemma("venn.bin_visited_iff_level_below_max", [m >= 0, i >= 0], (m - i > 0) == (i < m), "a bin takes part in level i iff i < its maximum count")


def replay_venn(vals, oid):
    rng = np.random.default_rng(9)
    bad = []
    for ns_ in (2, 3):
        for chunk in (3000, 7000, 100000):
            for boundary in (False, True):
                tot, want = native_venn(rng, ns_, chunk, boundary, silent=boundary)
                if tot != want:
                    bad.append({"sorters": ns_, "chunk_size": chunk, "attributed": int(tot), "spikes": int(want)})
    return {"failed": bool(bad), "examples": bad[:3]}


@harness(PROPERTY, "venn_level_and_chunks", functions=["ibldsp.spiketrains:_spikes_venn"], replay=replay_venn,
         clause="spike-coincidence counting attributes every spike of every sorter to exactly one Venn region regardless of chunking (the real peeling level and chunk selection)")
def h_venn_code(H):
    import ast
    from pyvc import interp as I
    FN = ST._spikes_venn
    node, filename = I.SOURCES.funcdef(FN)
    outer = [n_ for n_ in node.body if isinstance(n_, ast.For)]
    if len(outer) != 1:
        raise I.Unsupported("cannot identify the loop over chunks of _spikes_venn()")
    outer = outer[0]
    inner = [n_ for n_ in outer.body if isinstance(n_, ast.For)]
    if len(inner) != 1:
        raise I.Unsupported("cannot identify the loop over peeling levels of _spikes_venn()")
    inner = inner[0]

    for nsort in (2, 3):
        # ---- one peeling level of the real inner loop on arbitrary per-bin counts
        S = H.session(f"venn.level.{nsort}")

        def level(it, nsort=nsort):
            nb = z3.Int("nbins")
            it.ctx.assume(nb >= 1)
            counts = A.fresh_array("bin_counts", "int64", (nsort, nb), ranged=False)
            A.assume_range(counts, 0, 10 ** 9)
            pre = A.fresh_array("pre_result", "int64", (2 ** nsort - 1,), ranged=False)
            p0 = pre.snapshot()
            it.session.note_function(FN)
            env = I.Env(None, FN.__globals__, qualname="_spikes_venn", filename=filename)
            env.funcnode = node
            env.vars.update(dict(bin_counts=counts, num_sorters=nsort))
            it.ctx.func = env.qualname
            # region names, running totals and bit weights as the function itself sets them up (concrete for a given number of sorters)
            setup = [st for st in node.body if isinstance(st, ast.Assign) and isinstance(st.targets[0], ast.Name) and st.targets[0].id in ("cond_names", "pre_result", "vec")]
            if len(setup) != 3:
                raise I.Unsupported("cannot identify region names / running totals / bit weights in _spikes_venn()")
            it.exec_block(setup, env)
            names, vec_, tot0 = env.vars["cond_names"], env.vars["vec"], env.vars["pre_result"]
            ok_names = (list(names) == [format(r_, f"0{nsort}b") for r_ in range(1, 2 ** nsort)] and isinstance(vec_, np.ndarray) and vec_.tolist() == [2 ** (nsort - 1 - j) for j in range(nsort)]
                        and isinstance(tot0, np.ndarray) and tot0.shape == (2 ** nsort - 1,) and not tot0.any())
            it.ctx.oblige(f"venn.regions.naming.{nsort}", z3.BoolVal(bool(ok_names)), "post",
                          "region r is called by its binary digits, the first digit standing for sorter 1 ('100' = found by sorter 1 only): sorter j carries weight 2^(n-1-j); totals start at 0")
            env.vars["pre_result"] = pre
            # the two statements between the counts and the level loop (per-bin maximum, overall maximum)
            k0 = outer.body.index(inner)
            pre_stmts = [st for st in outer.body[:k0] if isinstance(st, ast.Assign) and isinstance(st.targets[0], ast.Name) and st.targets[0].id in ("max_per_spike", "overall_max")]
            if len(pre_stmts) != 2:
                raise I.Unsupported("cannot identify the per-bin maximum before the level loop of _spikes_venn()")
            it.exec_block(pre_stmts, env)
            mx = env.vars["max_per_spike"]
            b = z3.Int("b")
            it.ctx.oblige(f"venn.max_per_bin.{nsort}", z3.And(A.T(mx.shape[0]) == nb, A.forall([b], lambda: z3.Implies(z3.And(b >= 0, b < nb), z3.And(*[mx.read((b,)) >= counts.read((z3.IntVal(j), b)) for j in range(nsort)],
                          z3.Or(*[mx.read((b,)) == counts.read((z3.IntVal(j), b)) for j in range(nsort)]))))), "post", "m(b) is the largest count of any sorter in bin b")
            lvl = z3.Int("level")
            it.ctx.assume(z3.And(lvl >= 0, lvl < term(env.vars["overall_max"])))
            it.assign(inner.target, SV(lvl), env)
            it.exec_block(list(inner.body), env)
            wl = [q for q in it.ctx.where_log if q["ndim"] == 1]
            uq = getattr(it.ctx, "unique_log", [])
            if len(uq) != 1 or not wl:
                raise I.Unsupported("cannot identify the bins of this level / the distinct region codes in _spikes_venn()")
            w, uq = wl[0], uq[0]
            it.ctx.oblige(f"venn.level.bins_taking_part.{nsort}", A.forall([b], lambda: z3.Implies(z3.And(b >= 0, b < nb), w["mask"]((b,)) == (mx.read((b,)) > lvl))), "post",
                          "a bin takes part in level i iff i < its maximum count")
            s_ = z3.Int("s")
            code = lambda bb: z3.Sum([z3.If(counts.read((z3.IntVal(j), bb)) >= mx.read((bb,)) - lvl, z3.IntVal(2 ** (nsort - 1 - j)), z3.IntVal(0)) for j in range(nsort)])     # noqa
            it.ctx.oblige(f"venn.level.region_code.{nsort}", z3.And(uq["n"] == w["count"], A.forall([s_], lambda: z3.Implies(z3.And(s_ >= 0, s_ < w["count"]), z3.And(uq["input"]((s_,)) == code(w["rows"](s_)), uq["input"]((s_,)) >= 1,
                          uq["input"]((s_,)) <= 2 ** nsort - 1)))), "post", "the region of a bin at level i has bit j set iff sorter j has at least m(b) - i spikes in it; at least the sorter holding the maximum is marked", assume=False)
            r_ = z3.Int("r")
            present = lambda rr: z3.Exists([s_], z3.And(s_ >= 0, s_ < w["count"], code(w["rows"](s_)) == rr))     # noqa
            g_ = z3.Int("g")
            it.ctx.oblige(f"venn.level.only_present_regions_grow.{nsort}", A.forall([r_], lambda: z3.Implies(z3.And(r_ >= 1, r_ <= 2 ** nsort - 1),
                          z3.And(pre.read((r_ - 1,)) >= p0((r_ - 1,)), z3.Implies(pre.read((r_ - 1,)) != p0((r_ - 1,)), present(r_))))), "post",
                          "the running total of a region changes only if some bin of this level has that region, and never decreases", assume=False)
            it.ctx.oblige(f"venn.level.present_regions_get_their_multiplicity.{nsort}", A.forall([g_], lambda: z3.Implies(z3.And(g_ >= 0, g_ < uq["m"]),
                          pre.read((uq["values"](g_) - 1,)) == p0((uq["values"](g_) - 1,)) + uq["counts"](g_))), "post",
                          "each distinct region code of this level adds its multiplicity (np.unique(..., return_counts=True): A-NP-SPEC) to its own running total", assume=False)
        S.explore(level)

    # ---- which spikes a chunk sees (one symbolic chunk of the real outer loop, up to the binning call)
    S2 = H.session("venn.chunks")

    def chunks(it):
        n, chunk, ch = z3.Ints("nspikes chunk_size ch")
        it.ctx.assume(z3.And(n >= 1, chunk >= 1))
        samples = A.fresh_array("samples", "int64", (n,), ranged=False)
        k, k2 = z3.Int(fresh_name("k")), z3.Int(fresh_name("k"))
        it.ctx.assume(z3.ForAll([k, k2], z3.Implies(z3.And(k >= 0, k < k2, k2 < n), samples.uf(k) <= samples.uf(k2)), patterns=[z3.MultiPattern(samples.uf(k), samples.uf(k2))]))
        it.ctx.assume(z3.ForAll([k], z3.Implies(z3.And(k >= 0, k < n), samples.uf(k) >= 0), patterns=[samples.uf(k)]))
        env = I.Env(None, FN.__globals__, qualname="_spikes_venn", filename=filename)
        env.funcnode = node
        env.vars.update(dict(samples_tuple=(samples,), channels_tuple=(A.fresh_array("channels", "int64", (n,), ranged=False),), chunk_size=SV(chunk), num_sorters=1))
        it.ctx.func = env.qualname
        mx_st = [st for st in node.body if isinstance(st, ast.Assign) and isinstance(st.targets[0], ast.Name) and st.targets[0].id in ("max_samples", "num_chunks")]
        if len(mx_st) != 2:
            raise I.Unsupported("cannot identify the number of chunks in _spikes_venn()")
        it.exec_block(mx_st, env)
        nchunks = term(env.vars["num_chunks"])
        it.ctx.oblige("venn.chunks.cover_the_last_spike", z3.And(nchunks >= 1, samples.read((n - 1,)) < nchunks * chunk), "post", "the chunks reach past the last spike of any sorter")
        it.ctx.assume(z3.And(ch >= 0, ch < nchunks))
        it.assign(outer.target, SV(ch), env)
        sel = [st for st in outer.body if isinstance(st, ast.Assign) and isinstance(st.targets[0], ast.Name) and st.targets[0].id in ("sample_offset", "spike_indices", "samples_chunks")]
        if len(sel) != 3:
            raise I.Unsupported("cannot identify the selection of a chunk's spikes in _spikes_venn()")
        it.exec_block(sel, env)
        sl = env.vars["spike_indices"][0]
        lo, hi = term(sl.start), term(sl.stop)
        q = z3.Int("q")
        it.ctx.oblige("venn.chunks.spikes_of_chunk", z3.And(lo >= 0, lo <= hi, hi <= n, A.forall([q], lambda: z3.Implies(z3.And(q >= 0, q < n), z3.And(q >= lo, q < hi) == z3.And(samples.read((q,)) >= ch * chunk, samples.read((q,)) < (ch + 1) * chunk)))), "post",
                      "chunk ch sees exactly the spikes with ch*chunk <= sample < (ch+1)*chunk: every spike is binned in exactly one chunk, whatever the chunk size", assume=False)
        # the per-bin counts of this chunk: one row per sorter, computed from this chunk's spikes of that sorter only (nothing carried over)
        nsel = {}
        calls = []

        def bincount_summary(it_, a, k):
            x_, y_ = A.as_sarr(a[0]), A.as_sarr(a[1])
            out = A.fresh_array(f"counts2d_{len(calls)}", "int64", (z3.Int("nbins_channels"), z3.Int("nbins_samples")), ranged=False)
            calls.append({"x": x_, "y": y_, "args": list(a[2:]), "out": out})
            return out, None, None
        it.ctx.assume(z3.And(z3.Int("nbins_channels") >= 1, z3.Int("nbins_samples") >= 1))
        it.session.contracts[ST.bincount2D] = bincount_summary
        cnt_st = [st for st in outer.body if isinstance(st, ast.Assign) and isinstance(st.targets[0], ast.Name) and st.targets[0].id in ("channels_chunks", "bin_counts")]
        if len(cnt_st) != 2:
            raise I.Unsupported("cannot identify the per-bin counts of a chunk in _spikes_venn()")
        env.vars.update(dict(samples_binsize=12, channels_binsize=4, num_channels=384))
        it.exec_block(cnt_st, env)
        bc = env.vars["bin_counts"]
        okc = len(calls) == 1 and isinstance(bc, A.SArr) and bc.ndim == 2 and A.conc(bc.shape[0]) == 1
        it.ctx.oblige("venn.chunks.counts_from_this_chunk_only", z3.BoolVal(bool(okc and calls[0]["x"] is env.vars["samples_chunks"][0] and calls[0]["y"] is env.vars["channels_chunks"][0])), "post",
                      "each sorter's row of the count array is the 2-D bin count of that sorter's spikes in THIS chunk (local times, channels)")
        if okc:
            cb, tb = z3.Ints("cb tb")
            nbc, nbs = A.T(calls[0]["out"].shape[0]), A.T(calls[0]["out"].shape[1])
            fl = getattr(it.ctx, "flatten_log", [])
            if len(fl) != 1:
                raise I.Unsupported("cannot identify the flattening of the 2-D histogram in _spikes_venn()")
            pos = fl[0]["flat"]          # position of bin (channel bin, time bin) in the flattened row (row-major; abstracted as a bijection)
            it.ctx.oblige("venn.chunks.counts_row_is_the_flattened_histogram", z3.And(A.T(bc.shape[1]) == fl[0]["n"],
                          A.forall([cb, tb], lambda: z3.Implies(z3.And(cb >= 0, cb < nbc, tb >= 0, tb < nbs), bc.read((z3.IntVal(0), pos(cb, tb))) == calls[0]["out"].read((cb, tb))))), "post",
                          "every bin of the histogram appears in the sorter's row, at the same position for every sorter", assume=False)
        local = env.vars["samples_chunks"][0]
        it.ctx.oblige("venn.chunks.local_times", z3.And(A.T(local.shape[0]) == hi - lo, A.forall([q], lambda: z3.Implies(z3.And(q >= 0, q < hi - lo), z3.And(local.read((q,)) == samples.read((lo + q,)) - ch * chunk, local.read((q,)) >= 0, local.read((q,)) < chunk)))), "post",
                      "spike times handed to the 2-D bin count are relative to the chunk start and inside [0, chunk_size)", assume=False)
    S2.explore(chunks)


# ----------------------------------------------------------------------------- bounded
def native_venn(rng, nsorters, chunk, last_on_boundary, silent=False):
    fs = 30000
    trains = []
    for s in range(nsorters):
        n = int(rng.integers(50, 400))
        t = np.sort(rng.integers(0, 6 * chunk, n))
        if silent and s == 1:
            t = t[(t < 2 * chunk) | (t >= 4 * chunk)]            # this sorter finds nothing during two whole chunks
        if silent and s == 0:
            t = t[t < 5 * chunk]                                 # and this one stops a chunk before the others
        if last_on_boundary:
            t[-1] = 5 * chunk
            t = np.sort(np.minimum(t, 5 * chunk))
        if chunk != int(chunk):
            # a chunk size that is not a whole number of samples (20 s at a calibrated rate of 30000.03 Hz, say): spikes on either side of every seam
            seams = np.array([int(np.floor(k_ * chunk)) + d_ for k_ in range(1, 6) for d_ in (0, 1)])
            t = np.sort(np.r_[t, seams]).astype(np.int64)
        trains.append(np.asarray(t, dtype=np.int64))
    chans = [rng.integers(0, 384, t.size) for t in trains]
    f = ST.spikes_venn2 if nsorters == 2 else ST.spikes_venn3
    import contextlib
    import io
    with contextlib.redirect_stdout(io.StringIO()):
        res = f(tuple(trains), tuple(chans), chunk_size=chunk)
    tot = [0] * nsorters
    for key, cnt in res.items():
        for j, bit in enumerate(key):
            if bit == "1":
                tot[j] += int(cnt)
    return tot, [t.size for t in trains]


def native_rank(rng):
    bad = []
    for ncols, nrows, unit, order in ((1, 8, 1.0, "c"), (2, 10, 1.0, "c"), (4, 12, 1.0, "c"), (1, 5, 1.0, "c"), (2, 9, 1.0, "c"), (3, 13, 1.0, "c"), (5, 7, 1.0, "c"), (2, 10, 1e-3, "c"), (4, 12, 1e-3, "c"), (3, 13, 1e-6, "c"),
                                     (3, 8, 1.0, "c"), (3, 8, 1.0, "row by row"), (3, 8, 1.0, "shuffled"), (8, 3, 1.0, "c"), (3, 8, 1.0, "c")):
        # coordinates in micrometres, millimetres (0.016 / 0.020: pitches without an exact binary representation) or metres
        x = np.repeat(np.arange(ncols), nrows) * 16.0 * unit
        y = np.tile(np.arange(nrows), ncols) * 20.0 * unit
        # the same number of sites and of distinct x / y as the layout before, traces listed in another order (one process handles many layouts, one after the other)
        if order == "row by row":
            x, y = np.tile(np.arange(ncols), nrows) * 16.0 * unit, np.repeat(np.arange(nrows), ncols) * 20.0 * unit
        elif order == "shuffled":
            pp = rng.permutation(x.size)
            x, y = x[pp], y[pp]
        nc = x.size
        ns = 200
        t = np.arange(ns) / 30000
        wav = rng.standard_normal((nc, ns))
        WAV = np.fft.rfft(wav)                               # denoise works on spectra (nc, nf)
        r_full = min(CZ.trajectory(x=x, y=y)[0].shape)       # full rank of the trajectory matrix
        full = CZ.denoise(WAV, x=x, y=y, r=r_full, imax=None, niter=1)
        if not np.allclose(full, WAV, atol=1e-8 * np.abs(WAV).max()):
            bad.append(("cadzow full rank changes the data", ncols, nrows, float(np.abs(full - WAV).max())))
        k = 2 * np.pi * 2000
        # a single plane wave: every frequency bin is S(f) * exp(-2 pi i f tau_c) with a delay tau_c linear in the coordinates (rank one)
        freqs = np.fft.rfftfreq(ns, 1 / 30000)
        S0 = np.fft.rfft(np.exp(-0.5 * ((t - t[ns // 2]) / 0.0004) ** 2))
        tau = (y * 2e-6 + x * 1e-6) / unit
        P = S0[None, :] * np.exp(-2j * np.pi * freqs[None, :] * tau[:, None])
        plane = np.fft.irfft(P, ns)
        for niter in ((1, 2, 3) if nrows <= 9 else (1, 2)):
            P_in = P.copy()
            r1 = CZ.denoise(P_in, x=x, y=y, r=1, imax=None, niter=niter)
            if not np.array_equal(P_in, P):
                bad.append(("cadzow denoise wrote into the spectrum it was given", ncols, nrows, niter, float(np.abs(P_in - P).max())))
            if nrows <= 9:
                nz = rng.standard_normal(P.shape) * np.abs(P).max() * 0.3
                N_in = P + nz
                keep_ = N_in.copy()
                imx = P.shape[1] // 2
                dnz = CZ.denoise(N_in, x=x, y=y, r=1, imax=imx, niter=niter)
                if not np.array_equal(N_in, keep_) or dnz.shape != P.shape or np.any(dnz[:, imx:] != 0):
                    bad.append(("cadzow denoise with imax: input changed, or bins from imax on not left at zero", ncols, nrows, niter))
            if not np.allclose(r1, P, atol=1e-6 * np.abs(P).max()):
                bad.append(("cadzow plane wave at rank one not preserved", ncols, nrows, niter, float(np.abs(r1 - P).max() / np.abs(P).max())))
            ff = CZ.denoise(WAV, x=x, y=y, r=r_full, imax=None, niter=niter)
            if not np.allclose(ff, WAV, atol=1e-8 * np.abs(WAV).max()):
                bad.append(("cadzow full rank changes the data (niter)", ncols, nrows, niter))
        noisy = np.fft.rfft(plane + 0.5 * rng.standard_normal(plane.shape))
        dn = CZ.denoise(noisy, x=x, y=y, r=1, imax=None, niter=1)
        if not np.linalg.norm(dn - P) < np.linalg.norm(noisy - P):
            bad.append(("cadzow does not reduce added noise", ncols, nrows))
    d = rng.standard_normal((24, 300))
    if not np.allclose(V.svd_denoise_npx(d, rank=24), d, atol=1e-9):
        bad.append(("svd full rank",))
    low = np.outer(rng.standard_normal(24), rng.standard_normal(300))
    if not np.allclose(V.svd_denoise_npx(low, rank=1), low, atol=1e-9):
        bad.append(("svd rank one",))
    coll = np.repeat([0, 1], 12)
    if not np.allclose(V.svd_denoise_npx(d, rank=24, collection=coll), d, atol=1e-9):
        bad.append(("svd full rank per collection",))
    # collections of unequal sizes, contiguous and interleaved, labels that are not 0..n-1
    d48 = rng.standard_normal((48, 200))
    for coll in (np.r_[np.zeros(36, int), np.ones(12, int)], np.r_[np.full(30, 7), np.full(12, 2), np.full(6, 9)], rng.permutation(np.r_[np.zeros(36, int), np.ones(12, int)]), np.arange(48) % 5):
        if not np.allclose(V.svd_denoise_npx(d48, rank=48, collection=coll), d48, atol=1e-9):
            bad.append(("svd full rank with collections of unequal sizes", np.bincount(coll).tolist()))
    return bad


def native_savgol(rng):
    bad = []
    for case in range(12):
        n = int(rng.integers(25, 80))
        x = np.cumsum(rng.uniform(0.2, 3.0, n))
        order = int(rng.integers(1, 5))
        window = int(rng.choice([order + 2 + (order + 2 + 1) % 2, 11, 15]))
        if window <= order:
            window = order + 1 + (order % 2)
        if window % 2 == 0:
            window += 1
        for deg in range(0, order + 1):
            coef = rng.standard_normal(deg + 1)
            xs = (x - x.mean()) / x.std()
            y = np.polyval(coef, xs)
            ys = SM.non_uniform_savgol(x, y, window, order)
            if not np.allclose(ys, y, atol=1e-6 * max(1.0, np.abs(y).max())):
                bad.append(("savgol does not reproduce a polynomial", n, window, order, deg, float(np.abs(ys - y).max())))
    # integer / lattice abscissae with missing samples: consecutive windows share their end points but not their interior points
    for case in range(6):
        n = int(rng.integers(40, 90))
        keep = np.ones(n, bool)
        keep[rng.choice(np.arange(3, n - 3), int(rng.integers(3, 10)), replace=False)] = False
        x = np.arange(n)[keep].astype(float)
        for order, window in ((2, 5), (3, 7), (3, 11)):
            for deg in range(0, order + 1):
                coef = rng.standard_normal(deg + 1)
                y = np.polyval(coef, (x - x.mean()) / x.std())
                ys = SM.non_uniform_savgol(x, y, window, order)
                if not np.allclose(ys, y, atol=1e-6 * max(1.0, np.abs(y).max())):
                    bad.append(("savgol does not reproduce a polynomial on a lattice with gaps", n, window, order, deg, float(np.abs(ys - y).max())))
    # ordinates that are whole numbers handed over as integers (counts, frame numbers): a line y = 3 x + 7 sampled off-grid still comes back as that line (not truncated)
    for case in range(4):
        x = np.sort(rng.uniform(0, 50, 40)) + np.arange(40) * 0.5
        yi = np.round(3 * np.arange(40) + 7).astype(np.int64)
        xg = np.arange(40) + rng.uniform(-0.2, 0.2, 40)
        ys_i = SM.non_uniform_savgol(xg, yi, 7, 2)
        ys_f = SM.non_uniform_savgol(xg, yi.astype(float), 7, 2)
        if np.asarray(ys_i).shape != ys_f.shape or not np.allclose(np.asarray(ys_i, dtype=float), ys_f, atol=1e-9):
            bad.append(("savgol of integer-typed ordinates differs from the same numbers as floats", case, float(np.max(np.abs(np.asarray(ys_i, dtype=float) - ys_f)))))
    # through the NaN-filling wrapper: a cubic sampled on the integers with NaN gaps comes back as the cubic everywhere
    tt = np.arange(120, dtype=float)
    cub = 1e-4 * (tt - 60) ** 3 - 0.02 * (tt - 60) ** 2 + 0.3 * tt + 2
    gap = cub.copy()
    gap[[7, 15, 16, 40, 44, 47, 80, 81, 82, 101]] = np.nan
    out = SM.smooth_interpolate_savgol(gap, window=7, order=3)
    if out.shape != gap.shape or not np.allclose(out, cub, atol=1e-6 * np.abs(cub).max()):
        bad.append(("smooth_interpolate_savgol does not reproduce a cubic through NaN gaps", float(np.nanmax(np.abs(out - cub)))))
    sig = np.sin(np.arange(200) / 15.0)
    sig[[5, 50, 51, 52, 120, 199]] = np.nan
    out = SM.smooth_interpolate_savgol(sig, window=11, order=3)
    if out.shape != sig.shape or not np.all(np.isfinite(out)):
        bad.append(("smooth_interpolate_savgol leaves NaN / changes length",))
    return bad


@bounded(PROPERTY, "native_conservation", bound="Venn: 2 and 3 sorters, chunk sizes {120, 480, 1200, 6000} samples, last spike on / off a chunk boundary (quick 16 runs, thorough 64); cadzow on 1x8, 2x10, 4x12, 1x5, 2x9, 3x13, 5x7 layouts at full rank / plane wave at rank 2 with niter 1, 2; "
         "svd_denoise_npx full rank / rank one / per collection; Savitzky-Golay degrees 0..order on random abscissae (12 cases), lattices with gaps (6 x 3 settings), a cubic through NaN gaps; constants and lengths through lp / rolling_window; stack: default / mean / sum / median / nanmean x float32/64 x 3 label patterns x with/without NaN, header means, fold",
         clause="rank-reduction identities, polynomial reproduction, constants, lengths, spike conservation, fold")
def b_native(B):
    rng = np.random.default_rng(B.seed)
    for ns in (2, 3):
        for chunk in (120, 480, 1200, 6000):
            for boundary in (True, False):
                for rep in range(1 if B.tier == "quick" else 4):
                    tot, want = native_venn(rng, ns, chunk, boundary)
                    B.case(("venn", ns, chunk, boundary, rep), tot == want, detail={"attributed": tot, "spikes": want})
            # sorters that are silent during whole chunks / stop before the others
            tot, want = native_venn(rng, ns, chunk, False, silent=True)
            B.case(("venn_silent_chunks", ns, chunk), tot == want, detail={"attributed": tot, "spikes": want})
        for chunk in (1000.6, 333.25):
            tot, want = native_venn(rng, ns, chunk, False)
            B.case(("venn_chunk_size_not_a_whole_number", ns, chunk), tot == want, detail={"attributed": tot, "spikes": want})
    bad = native_rank(rng)
    B.case("rank_reduction", not bad, detail=bad[:5])
    bad = native_savgol(rng)
    B.case("savgol", not bad, detail=bad[:5])
    bad = []
    for n in (10, 37, 100, 255):
        c = np.full(n, 3.25)
        if SM.lp(c, [0.1, 0.15]).shape != (n,) or not np.allclose(SM.lp(c, [0.1, 0.15]), c):
            bad.append(("lp constant/length", n))
        for wl in (3, 4, 5, 6, 8, 9, 11, 12):
            if n > wl:
                for win in ("flat", "hanning", "hamming", "bartlett", "blackman"):
                    y = SM.rolling_window(c, wl, win)
                    if y.shape != (n,) or not np.allclose(y, c):
                        bad.append(("rolling_window constant/length", n, wl, win))
    B.case("smoothers_constants_lengths", not bad, detail=bad[:5])
    bad = []
    for dt in (np.float64, np.float32):
        for labels in ("random", "interleaved", "contiguous", "some labels carried by one trace", "one trace per label"):
            data = rng.standard_normal((30, 7)).astype(dt)
            word = {"random": rng.integers(0, 5, 30), "interleaved": np.arange(30) % 4 * 10, "contiguous": np.repeat(np.arange(5), 6) + 3,
                    "some labels carried by one trace": np.r_[np.arange(6), np.repeat(np.arange(6, 10), 6)], "one trace per label": rng.permutation(30)}[labels]
            for with_nan in (False, True):
                d = data.copy()
                if with_nan:
                    d[rng.integers(0, 30, 9), rng.integers(0, 7, 9)] = np.nan
                for name, fcn, ref in (("default", None, np.nanmean), ("mean", np.mean, np.mean), ("sum", np.sum, np.sum), ("median", np.median, np.median), ("nanmean", np.nanmean, np.nanmean),
                                       ("nansum", np.nansum, np.nansum), ("std", np.std, np.std), ("ptp", np.ptp, np.ptp), ("count of finite samples", lambda a, axis=0: np.sum(np.isfinite(a), axis=axis), lambda a, axis=0: np.sum(np.isfinite(a), axis=axis))):
                    hdr = {"offset": np.arange(30, dtype=float)}
                    st, hs = V.stack(d.copy(), word, header=hdr) if fcn is None else V.stack(d.copy(), word, fcn_agg=fcn, header=hdr)
                    groups = np.unique(word)
                    with np.errstate(all="ignore"):
                        want = np.stack([ref(d[word == g], axis=0) for g in groups])
                    ok = st.shape == (groups.size, 7) and np.allclose(st, want, equal_nan=True, rtol=1e-5, atol=1e-6)
                    ok = ok and np.array_equal(hs["fold"], [np.sum(word == g) for g in groups]) and np.allclose(hs["offset"], [hdr["offset"][word == g].mean() for g in groups])
                    if not ok:
                        bad.append((name, labels, dt.__name__, "nan" if with_nan else "finite"))
    st, fold = V.stack(rng.standard_normal((12, 3)), np.arange(12) // 3)
    if not np.array_equal(fold, [3, 3, 3, 3]):
        bad.append(("fold without header",))
    B.case("stack_aggregates_fold_header", not bad, detail=bad[:6])


# ----------------------------------------------------------------------------- svd_denoise_npx: rank share per collection, rows in == rows out
def _svd_summary_log(log):
    def summ(it, a, k):
        x = A.as_sarr(a[0])
        rk = k.get("rank", a[1] if len(a) > 1 else None)
        out = A.fresh_array("svd_lowrank", "float64", x.shape)
        log.append({"in": x.snapshot(), "shape": x.shape, "rank": term(rk), "out": out.snapshot()})
        return out
    return summ


def replay_svd(vals, oid):
    """full rank / single collection natively: unequal collection sizes, interleaved labels"""
    rng = np.random.default_rng(3)
    bad = []
    for t in range(12):
        nc = int(rng.integers(6, 40))
        ns = int(rng.integers(nc + 5, 120))
        d = rng.standard_normal((nc, ns))
        ng = int(rng.integers(1, 4))
        coll = np.sort(rng.integers(0, ng, nc)) if t % 2 else rng.integers(0, ng, nc)
        coll[:max(1, nc // 2)] = coll[0]                         # unequal sizes
        if "single_collection" not in oid and not np.allclose(V.svd_denoise_npx(d, rank=nc, collection=coll * 3 + 1), d, atol=1e-9):
            bad.append({"nc": nc, "rank": nc, "collection_sizes": np.bincount(coll).tolist(), "what": "full rank changes the data"})
        low = np.outer(rng.standard_normal(nc), rng.standard_normal(ns))
        if "full_rank" not in oid and not np.allclose(V.svd_denoise_npx(low, rank=1), low, atol=1e-9):
            bad.append({"nc": nc, "rank": 1, "what": "rank-one data not preserved at rank one"})
    return {"failed": bool(bad), "examples": bad[:3]}


@harness(PROPERTY, "svd_denoise_collections", functions=["ibldsp.voltage:svd_denoise_npx", "ibldsp.voltage:_svd_denoise"], replay=replay_svd,
         clause="plain SVD denoising returns its input unchanged whenever the requested rank is at least the rank of the data (full rank), per channel collection")
def h_svd(H):
    import ast
    from pyvc import interp as I

    # ---- _svd_denoise: at rank >= min(shape) no singular vector / value is cut off (then U diag(s) V is the decomposition itself: A-LINALG)
    S0 = H.session("svd.truncation")

    def trunc(it):
        m, n, rank = z3.Ints("m n rank")
        it.ctx.assume(z3.And(m >= 1, n >= 1))
        kk = z3.If(m <= n, m, n)
        it.ctx.assume(rank >= kk)
        x = A.fresh_array("datr", "float64", (m, n))
        Um = A.fresh_array("U", "float64", (m, kk))
        sg = A.fresh_array("sigma", "float64", (kk,))
        Vm = A.fresh_array("Vh", "float64", (kk, n))
        calls = []

        def svd_summary(it_, a, k):
            calls.append((A.as_sarr(a[0]), dict(k)))
            return Um, sg, Vm          # A-LINALG: reduced SVD, datr == U @ diag(sigma) @ Vh
        it.session.contracts[np.linalg.svd] = svd_summary
        run_function(it, V._svd_denoise, [x, SV(rank)])
        ml = getattr(it.ctx, "matmul_log", [])
        if len(calls) != 1 or len(ml) != 2:
            raise I.Unsupported("cannot identify decomposition and the two products in _svd_denoise()")
        i, j = z3.Ints("i j")
        it.ctx.oblige("svd.reduced_decomposition_of_the_input", z3.BoolVal(calls[0][0] is x and calls[0][1].get("full_matrices") is False), "post")
        first, second = ml
        it.ctx.oblige("svd.full_rank.keeps_all_left_vectors", z3.And(A.T(first["a_shape"][0]) == m, A.T(first["a_shape"][1]) == kk,
                      A.forall([i, j], lambda: z3.Implies(z3.And(i >= 0, i < m, j >= 0, j < kk), first["a"]((i, j)) == Um.read((i, j))))), "post", assume=False)
        it.ctx.oblige("svd.full_rank.keeps_all_singular_values", z3.And(A.T(first["b_shape"][0]) == kk, A.T(first["b_shape"][1]) == kk,
                      A.forall([i, j], lambda: z3.Implies(z3.And(i >= 0, i < kk, j >= 0, j < kk), first["b"]((i, j)) == z3.If(i == j, sg.read((i,)), z3.RealVal(0))))), "post", assume=False)
        it.ctx.oblige("svd.full_rank.keeps_all_right_vectors", z3.And(A.T(second["b_shape"][0]) == kk, A.T(second["b_shape"][1]) == n,
                      A.forall([i, j], lambda: z3.Implies(z3.And(i >= 0, i < kk, j >= 0, j < n), second["b"]((i, j)) == Vm.read((i, j)))),
                      A.forall([i, j], lambda: z3.Implies(z3.And(i >= 0, i < m, j >= 0, j < kk), second["a"]((i, j)) == first["out"]((i, j))))), "post",
                      "(U diag(s)) Vh with every factor whole", assume=False)
    S0.explore(trunc)

    # ---- one symbolic iteration of the loop over collections
    S = H.session("svd.collection")
    FN = V.svd_denoise_npx

    def body(it):
        nc, ns, rank = z3.Ints("nc ns rank")
        it.ctx.assume(z3.And(nc >= 1, ns >= 1, rank >= 1))
        H.input(nc=nc, ns=ns, rank=rank)
        data = A.fresh_array("datr", "float64", (nc, ns))
        d0 = data.snapshot()
        coll = A.fresh_array("collection", "int64", (nc,), ranged=False)
        log = []
        it.session.contracts[V._svd_denoise] = _svd_summary_log(log)
        node, filename = I.SOURCES.funcdef(FN)
        it.session.note_function(FN)
        loops = [n_ for n_ in node.body if isinstance(n_, ast.For)]
        if len(loops) != 1:
            raise I.Unsupported("cannot identify the loop over collections of svd_denoise_npx()")
        loop = loops[0]
        before = node.body[:node.body.index(loop)]
        env = I.Env(None, FN.__globals__, qualname="svd_denoise_npx", filename=filename)
        env.funcnode = node
        env.vars.update(dict(datr=data, rank=SV(rank), collection=coll))
        it.ctx.func = env.qualname
        it.exec_block(before, env)
        out = env.vars.get("svd")
        if not isinstance(out, A.SArr):
            raise I.Unsupported("cannot identify the output array of svd_denoise_npx()")
        # the iterable of the loop: the distinct collection labels
        itv = it.eval(loop.iter, env)
        uq = list(getattr(it.ctx, "unique_log", []))
        if len(uq) != 1 or not isinstance(itv, A.SArr):
            raise I.Unsupported("cannot identify the distinct collection labels in svd_denoise_npx()")
        uq = uq[0]
        g = z3.Int("g")
        it.ctx.assume(z3.And(g >= 0, g < uq["m"]))
        label = uq["values"](g)
        o0 = out.snapshot()
        it.assign(loop.target, SV(label), env)
        it.exec_block(list(loop.body), env)
        it.ctx.oblige("svd.one_decomposition_per_collection", z3.BoolVal(len(log) == 1), "post")
        if len(log) != 1:
            return
        c = log[0]
        r, t, q = z3.Ints("r t q")
        member = lambda ch: coll.read((ch,)) == label      # noqa
        size = A.T(c["shape"][0])
        # rows handed to the decomposition: a bijection with the channels of this collection
        rowch = z3.Function("row_channel", z3.IntSort(), z3.IntSort())
        w = [x_ for x_ in it.ctx.where_log if x_["ndim"] == 1]
        if not w:
            raise I.Unsupported("cannot identify the selection of one collection's channels")
        wi = w[-1]
        it.ctx.oblige("svd.group_is_the_collection", A.forall([q], lambda: z3.Implies(z3.And(q >= 0, q < nc), wi["mask"]((q,)) == member(q))), "post", "the channels decomposed together are exactly those of one collection")
        it.ctx.oblige("svd.group_size", z3.And(size == wi["count"], A.T(c["shape"][1]) == ns), "post")
        it.ctx.oblige("svd.rank_share.full_rank_keeps_everything", z3.Implies(rank >= nc, c["rank"] >= size), "post",
                      "when the requested rank is at least the number of channels, each collection is decomposed at a rank >= its own number of channels (nothing is cut off)")
        it.ctx.oblige("svd.rank_share.single_collection_gets_the_requested_rank", z3.Implies(size == nc, c["rank"] == rank), "post",
                      "without collections (one group holding every channel) the decomposition is truncated at the requested rank itself (a rank-one wavefield survives rank=1)")
        # rows written == rows read, everything else untouched
        itr = env.vars.get("itr")
        if not isinstance(itr, A.SArr):
            raise I.Unsupported("cannot identify the channel list of one collection (local 'itr')")
        it.ctx.oblige("svd.rows_in", A.forall([r, t], lambda: z3.Implies(z3.And(r >= 0, r < size, t >= 0, t < ns), z3.And(member(itr.read((r,))), c["in"]((r, t)) == d0((itr.read((r,)), t))))), "post",
                      "row r of the block decomposed is channel itr[r] of the input, a member of the collection", assume=False)
        it.ctx.oblige("svd.rows_out", A.forall([r, t], lambda: z3.Implies(z3.And(r >= 0, r < size, t >= 0, t < ns), out.read((itr.read((r,)), t)) == c["out"]((r, t)))), "post",
                      "the low-rank block is written back to the same channels, row for row", assume=False)
        it.ctx.oblige("svd.frame", A.forall([q, t], lambda: z3.Implies(z3.And(q >= 0, q < nc, t >= 0, t < ns, z3.Not(member(q))), out.read((q, t)) == o0((q, t)))), "post",
                      "channels of other collections are not written in this iteration", assume=False)
        it.ctx.oblige("svd.input_untouched", A.forall([q, t], lambda: z3.Implies(z3.And(q >= 0, q < nc, t >= 0, t < ns), data.read((q, t)) == d0((q, t)))), "post", assume=False)
    S.explore(body)


# ----------------------------------------------------------------------------- stack: per-label aggregates
@harness(PROPERTY, "stack_iteration", functions=["ibldsp.voltage:stack"],
         clause="stacking by label returns per-label aggregates: row k of the stack is the aggregate of exactly the traces carrying the k-th distinct label, the fold is its multiplicity")
def h_stack(H):
    import ast
    from pyvc import interp as I
    from pyvc.models import SymCallable
    S = H.session("stack")
    FN = V.stack

    def body(it):
        ntr, ns = z3.Ints("ntr ns")
        it.ctx.assume(z3.And(ntr >= 1, ns >= 1))
        data = A.fresh_array("data", "float64", (ntr, ns))
        d0 = data.snapshot()
        word = A.fresh_array("word", "int64", (ntr,))
        calls = []

        def agg(it_, args, kw):
            xx = A.as_sarr(args[0])
            calls.append({"in": xx.snapshot(), "shape": xx.shape, "axis": kw.get("axis", args[1] if len(args) > 1 else None)})
            return A.fresh_array("agg", "float64", (xx.shape[1],))
        fcn = SymCallable(lambda *args, **kw: agg(None, args, kw), "fcn_agg")
        node, filename = I.SOURCES.funcdef(FN)
        it.session.note_function(FN)
        loops = [n for n in node.body if isinstance(n, ast.For)]
        if len(loops) != 1:
            raise I.Unsupported("cannot identify the per-label loop of stack()")
        loop = loops[0]
        before = node.body[:node.body.index(loop)]
        env = I.Env(None, FN.__globals__, qualname="stack", filename=filename)
        env.funcnode = node
        env.vars.update(dict(data=data, word=word, fcn_agg=fcn, header=None))
        it.ctx.func = env.qualname
        it.exec_block(before, env)
        uq = getattr(it.ctx, "unique_log", [])
        if len(uq) != 1:
            raise I.Unsupported("cannot identify the distinct labels (np.unique) in stack()")
        uq = uq[0]
        m = uq["m"]
        st = env.vars["stack"]
        s0 = st.snapshot()
        it.ctx.oblige("stack.shape", z3.And(z3.BoolVal(st.ndim == 2), A.T(st.shape[0]) == m, A.T(st.shape[1]) == ns), "post", "one row per distinct label")
        k = z3.Int("k")
        it.ctx.assume(z3.And(k >= 0, k < m))
        it.assign(loop.target, SV(k), env)
        it.exec_block(list(loop.body), env)
        it.ctx.oblige("stack.one_aggregate_per_label", z3.BoolVal(len(calls) == 1 and calls[0]["axis"] == 0), "post", "one aggregation across traces (axis 0) per label")
        if len(calls) == 1:
            w = [q for q in it.ctx.where_log if q["ndim"] == 1]
            cin, cshape = calls[0]["in"], calls[0]["shape"]
            i, t, r = z3.Ints("i t r")
            sel = lambda ii: word.read((ii,)) == uq["values"](k)      # noqa  trace ii carries the k-th label
            if w:
                wi = w[-1]
                it.ctx.oblige("stack.group_is_the_label", A.forall([i], lambda: z3.Implies(z3.And(i >= 0, i < ntr), wi["mask"]((i,)) == sel(i))), "post", "the traces aggregated for row k are exactly those whose label is the k-th distinct one")
                it.ctx.oblige("stack.group_rows", z3.And(A.T(cshape[0]) == wi["count"], A.T(cshape[1]) == ns,
                              A.forall([r, t], lambda: z3.Implies(z3.And(r >= 0, r < wi["count"], t >= 0, t < ns), cin((r, t)) == d0((wi["rows"](r), t))))), "post", "with all their samples", assume=False)
            else:
                raise I.Unsupported("cannot identify the selection of the traces of one label")
            it.ctx.oblige("stack.row_written", A.forall([r, t], lambda: z3.Implies(z3.And(r >= 0, r < m, t >= 0, t < ns, r != k), st.read((r, t)) == s0((r, t)))), "post", "only row k of the stack is written in iteration k", assume=False)
        it.ctx.oblige("stack.input_untouched", A.forall([z3.Int("i"), z3.Int("t")], lambda: z3.Implies(z3.And(z3.Int("i") >= 0, z3.Int("i") < ntr, z3.Int("t") >= 0, z3.Int("t") < ns), data.read((z3.Int("i"), z3.Int("t"))) == d0((z3.Int("i"), z3.Int("t"))))), "post", assume=False)
    S.explore(body)


depends(PROPERTY, "C18", ["filters", "filters_3d_axis0"])      # smooth.lp crops what fourier.lp returns: the filter keeps the shape of its input and works along the requested axis
