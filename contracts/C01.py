"""C01 - Reader returns calibrated voltages aligned with the probe geometry.

Functions under contract (spikeglx.py): Reader.read, Reader.__getitem__, Reader.read_samples, Reader.sample2volts,
Reader.type (+ _get_type_from_meta unfolded), the raw_channel_order construction at the end of Reader.__init__.
The geometry side (geometry_from_meta: joint permutation, ordering) is C08, the conversion vector is C09; both are used
here through their contracts.
"""
import itertools
import os
import shutil
import tempfile

import numpy as np
import z3

import spikeglx
from pyvc.api import harness, bounded, property_meta, run_function
from pyvc.core import SV, term, Unsupported, fresh_name
from pyvc import arrays as A, fsmodel
from pyvc.arrays import SArr
from pyvc.interp import SObj

PROPERTY = "C01"
property_meta(
    PROPERTY, level="other",
    trusted_base=["A-PY", "A-NP-INDEX (NumPy applies the same index function whatever array is indexed; views/copies as in DESIGN 2.2)",
                  "A-REAL (float32 multiply read as real multiplication: the proof is about which sample and which gain meet, dtype is checked separately)",
                  "A-MTSCOMP for .cbin (mtscomp.Reader indexing == ndarray indexing; exercised by the bounded stand-in here and in C02)",
                  "A-INT64"],
    explanation="Reader.__getitem__/read/read_samples executed symbolically for every selector shape: abstract index functions for int / slice (any start, stop, "
                "step incl. negative and None) / integer arrays; post-condition: result == V[nsel, csel] with V[n,c] = f32(raw[n, order[c]]) * s2v[order[c]], "
                "dtype float32, file content untouched; raw_channel_order construction in __init__ against geometry_from_meta's contract. "
                "Level 'other' because the cbin path rests on a checked (bounded) assumption about mtscomp.")

STEPS = (None, 1, 2, -1, -3)


def mk_reader(it, nsync_known=True):
    ns, nc, nap = z3.Ints("ns nc nap")
    it.ctx.assume(z3.And(ns >= 1, nc >= 2, nap >= 1, nap < nc))
    raw = A.fresh_array("raw", "int16", (ns, nc))
    order = A.fresh_array("order", "int64", (nc,), ranged=False)
    order.facts_on_read = lambda idx, t: [t >= 0, t < nc]
    s2v = A.fresh_array("s2v", "float32", (nc,))
    # the announced duration is consistent with the mapped array (C11 proves that open() makes it so): Reader.ns == rows of _raw
    meta = {"typeThis": "imec", "snsApLfSy": [SV(nap), 0, SV(nc - nap)], "nSavedChans": SV(nc), "imSampRate": 30000.0, "fileTimeSecs": SV(z3.ToReal(ns) / 30000)}
    obj = SObj(spikeglx.Reader, _raw=raw, raw_channel_order=order, channel_conversion_sample2v={"ap": s2v, "lf": A.fresh_array("s2v_lf", "float32", (nc,))}, meta=meta)
    return obj, raw, order, s2v, ns, nc


def calibrated(raw, order, s2v, ns, nc):
    """spec: the whole calibrated array, V[n, c] = float32(raw[n, order[c]]) * s2v[order[c]]"""
    return SArr(np.float32, (ns, nc), lambda idx: (lambda oc: z3.ToReal(raw.read((idx[0], oc))) * s2v.read((oc,)))(order.read((idx[1],))))


def sym_selector(kind, name, n, it, step=None):
    if kind == "int":
        i = z3.Int(name)
        it.ctx.assume(z3.And(i >= -A.T(n), i < A.T(n)))
        return SV(i)
    if kind == "slice":
        a, b = z3.Int(name + "_start"), z3.Int(name + "_stop")
        return slice(SV(a), SV(b), step)
    if kind == "slice_open":
        a = z3.Int(name + "_start")
        return slice(SV(a), None, step)
    if kind == "slice_none":
        return slice(None, None, step)
    if kind == "array":
        m = z3.Int(name + "_len")
        it.ctx.assume(m >= 0)
        arr = A.fresh_array(name, "int64", (m,), ranged=False)
        arr.facts_on_read = lambda idx, t: [t >= -A.T(n), t < A.T(n)]
        return arr
    raise ValueError(kind)


def same_array(it, oid, got, want, detail=""):
    got_is_array = isinstance(got, SArr)      # 0-d results are unboxed to scalars by the engine (dtype then checked natively only)
    if not isinstance(got, SArr):
        got = A.as_sarr(got)
    if not isinstance(want, SArr):
        want = A.as_sarr(want)
    ok = got.ndim == want.ndim
    it.ctx.oblige(oid + ".ndim", z3.BoolVal(ok), "post", f"result has {got.ndim} dims, NumPy indexing of the calibrated array has {want.ndim}")
    if not ok:
        return
    it.ctx.oblige(oid + ".shape", z3.And(*[A.T(a) == A.T(b) for a, b in zip(got.shape, want.shape)]) if got.ndim else z3.BoolVal(True), "post")
    ks = [z3.Int(fresh_name("q")) for _ in got.shape]
    rng = z3.And(*[z3.And(k >= 0, k < A.T(d)) for k, d in zip(ks, got.shape)]) if ks else z3.BoolVal(True)
    it.ctx.oblige(oid + ".values", A.forall(ks, lambda: z3.Implies(rng, got.read(tuple(ks)) == want.read(tuple(ks)))), "post", detail)
    if got_is_array:
        it.ctx.oblige(oid + ".dtype", z3.BoolVal(got.dtype == np.dtype("float32")), "post", "result dtype is float32")


def _concretise(vals):
    return vals


def replay_read(vals, oid):
    """native replay on a real Reader with overridden order / gains (kept generic: random small file, all selector kinds)"""
    r = native_reader_cases(np.random.default_rng(1), n_files=2, quick=True)
    return {"failed": bool(r), "examples": r[:3]}


def _run_read(H, nkind, ckind, nstep, cstep, via):
    S = H.session(f"read.{via}.{nkind}{nstep}.{ckind}{cstep}")

    def body(it):
        obj, raw, order, s2v, ns, nc = mk_reader(it)
        nsel = sym_selector(nkind, "nsel", ns, it, nstep)
        csel = sym_selector(ckind, "csel", nc, it, cstep) if ckind else None
        before = raw.snapshot()
        V = calibrated(raw, order, s2v, ns, nc)
        if via == "getitem":
            item = nsel if csel is None else (nsel, csel)
            got = run_function(it, spikeglx.Reader.__getitem__, [obj, item])
            want = A.getitem(V, nsel if csel is None else (nsel, csel))
        elif via == "read":
            got = run_function(it, spikeglx.Reader.read, [obj], {"nsel": nsel, "csel": csel if csel is not None else slice(None), "sync": False})
            want = A.getitem(V, (nsel, csel if csel is not None else slice(None)))
        tag = f"{via}.{nkind}{nstep if nstep else ''}.{ckind or 'nocsel'}{cstep if cstep else ''}"
        same_array(it, f"layout.{tag}", got, want, "result == V[nsel, csel] with V the whole calibrated, geometry-ordered array")
        n, c = z3.Ints("n c")
        it.ctx.oblige(f"frame.raw_untouched.{tag}", A.forall([n, c], lambda: z3.Implies(z3.And(n >= 0, n < ns, c >= 0, c < nc), raw.read((n, c)) == before((n, c)))), "post")
    S.explore(body)


@harness(PROPERTY, "getitem_layout", functions=["spikeglx:Reader.__getitem__", "spikeglx:Reader.read", "spikeglx:Reader.type", "spikeglx:_get_type_from_meta"],
         replay=replay_read, clause="indexing with sample and channel selectors returns float32(raw) x gain laid out as NumPy indexing of the calibrated array")
def h_getitem(H):
    combos = [("int", None, None, None), ("slice", None, None, None), ("slice", None, -1, None), ("slice", None, 2, None), ("array", None, None, None)]
    for nk in ("int", "slice", "array"):
        for ck in ("int", "slice", "array"):
            if nk == "array" and ck == "array":
                continue     # outer-product vs point-wise: the statement does not fix which is meant (DESIGN C01)
            nsteps = (None, -1, 2) if nk == "slice" else (None,)
            csteps = (None, -1, -3) if ck == "slice" else (None,)
            for a in nsteps:
                for b in csteps:
                    combos.append((nk, ck, a, b))
    combos += [("slice_open", "slice_none", None, None), ("slice_none", "slice_open", -1, 2)]
    for nk, ck, a, b in combos:
        _run_read(H, nk, ck, a, b, "getitem")


@harness(PROPERTY, "read_and_samples", functions=["spikeglx:Reader.read", "spikeglx:Reader.read_samples", "spikeglx:Reader.is_open"],
         clause="read / read_samples agree with the same layout; closed reader raises")
def h_read(H):
    _run_read(H, "slice", "array", None, None, "read")
    _run_read(H, "array", "slice", None, -1, "read")
    _run_read(H, "slice", None, None, None, "read")
    S = H.session("read_samples")

    def body(it):
        obj, raw, order, s2v, ns, nc = mk_reader(it)
        a, b = z3.Ints("first last")
        ch = sym_selector("array", "channels", nc, it)
        V = calibrated(raw, order, s2v, ns, nc)
        from pyvc.interp import Closure
        # read_samples returns read(...) with sync=True: (data, sync); the sync part is C10's contract
        it.session.contracts[spikeglx.Reader.read_sync] = lambda it_, a_, k_: "SYNC"
        got = run_function(it, spikeglx.Reader.read_samples, [obj], {"first_sample": SV(a), "last_sample": SV(b), "channels": ch})
        it.ctx.oblige("read_samples.tuple", z3.BoolVal(isinstance(got, tuple) and len(got) == 2 and got[1] == "SYNC"), "post")
        same_array(it, "layout.read_samples", got[0], A.getitem(V, (slice(SV(a), SV(b)), ch)))
    S.explore(body)
    # what a read returned stays what it was when the same reader reads again (same number of samples, other samples / another channel):
    # results are the caller's own arrays
    for kind in ("int_channel", "channel_slice"):
        S3 = H.session(f"read.again.{kind}")

        def body3(it, kind=kind):
            obj, raw, order, s2v, ns, nc = mk_reader(it)
            a, b, L, c1, c2 = z3.Ints("first second length c1 c2")
            it.ctx.assume(z3.And(L >= 1, a >= 0, a + L <= ns, b >= 0, b + L <= ns, c1 >= 0, c1 < nc, c2 >= 0, c2 < nc))
            cs1 = SV(c1) if kind == "int_channel" else slice(SV(c1), None)
            cs2 = SV(c2) if kind == "int_channel" else slice(SV(c2), None)
            r1 = run_function(it, spikeglx.Reader.read, [obj], {"nsel": slice(SV(a), SV(a + L)), "csel": cs1, "sync": False})
            if not isinstance(r1, A.SArr):
                raise Unsupported("read() of a sample slice did not return an array")
            first = r1.snapshot()
            shp = r1.shape
            r2 = run_function(it, spikeglx.Reader.read, [obj], {"nsel": slice(SV(b), SV(b + L)), "csel": cs2, "sync": False})
            idx = [z3.Int(f"q{k_}") for k_ in range(r1.ndim)]
            rng_ = z3.And(*[z3.And(i_ >= 0, i_ < A.T(d_)) for i_, d_ in zip(idx, shp)])
            it.ctx.oblige(f"read.again.first_result_kept.{kind}", z3.And(z3.BoolVal(not A.shares_memory(r1, r2) and not A.shares_memory(r1, raw)),
                          A.forall(idx, lambda: z3.Implies(rng_, r1.read(tuple(idx)) == first(tuple(idx))))), "post",
                          "the array returned by the first read is not modified by the second read of the same reader", assume=False)
        S3.explore(body3)
    S2 = H.session("closed")

    def body2(it):
        obj, raw, order, s2v, ns, nc = mk_reader(it)
        obj.attrs["_raw"] = None
        try:
            run_function(it, spikeglx.Reader.read, [obj], {"nsel": slice(0, 1), "sync": False})
            raised = False
        except Exception as e:
            from pyvc.interp import PyRaise
            raised = isinstance(e, PyRaise) and isinstance(e.exc, IOError)
        it.ctx.oblige("closed.raises_ioerror", z3.BoolVal(raised), "post")
    S2.explore(body2)


@harness(PROPERTY, "sync_unscaled", functions=["spikeglx:Reader.read"], clause="sync channels are left unscaled")
def h_sync(H):
    S = H.session("sync_unscaled")

    def body(it):
        obj, raw, order, s2v, ns, nc = mk_reader(it)
        n, c = z3.Ints("n c")
        it.ctx.assume(z3.And(n >= 0, n < ns, c >= 0, c < nc))
        oc = order.read((c,))
        it.ctx.assume(s2v.read((oc,)) == 1)          # C09: conversion factor 1 on sync channels
        got = run_function(it, spikeglx.Reader.read, [obj], {"nsel": SV(n), "csel": SV(c), "sync": False})
        it.ctx.oblige("sync.value_is_raw", term(got) == z3.ToReal(raw.read((n, oc))), "post", "a channel whose factor is 1 is returned as float32(raw)")
    S.explore(body)


# ----------------------------------------------------------------------------- __init__: raw_channel_order
class _Bunchish(dict):
    pass


@harness(PROPERTY, "init_order", functions=["spikeglx:Reader.__init__"],
         clause="the order returned by geometry_from_meta is stored as raw_channel_order (identity beyond the geometry, i.e. on sync); geometry stored is the sorted one")
def h_init(H):
    for sort in (True, False):
        S = H.session(f"init.sort{sort}")

        def body(it, sort=sort):
            fs_ = fsmodel.GhostFS()
            it.session.ghost_fs = fs_
            nc, ng = z3.Ints("nc ng")
            it.ctx.assume(z3.And(ng >= 1, ng < nc))
            p = fsmodel.GhostPath(fs_, ("d",), "r.imec0.ap.bin")
            m = p.with_suffix(".meta")
            fs_.exists[p.key] = True
            fs_.exists[m.key] = True
            fs_.size[p.key] = SV(z3.Int("nbytes"))
            meta = {"typeThis": "imec", "nSavedChans": SV(nc), "snsApLfSy": [SV(ng), 0, SV(nc - ng)]}
            order = A.fresh_array("inds", "int64", (ng,), ranged=False)
            geom = {"x": A.fresh_array("gx", "float64", (ng,))}
            seen = {}

            def geometry_summary(it_, a, k):
                seen["sort"] = k.get("sort")
                seen["return_index"] = k.get("return_index")
                seen["meta_is"] = a[0] is meta
                return geom, order
            import pathlib
            it.session.contracts[pathlib.Path] = lambda it_, a, k: a[0]
            it.session.contracts[spikeglx._get_companion_file] = lambda it_, a, k: m
            it.session.contracts[spikeglx.read_meta_data] = lambda it_, a, k: meta
            it.session.contracts[spikeglx._conversion_sample2v_from_meta] = lambda it_, a, k: {"ap": "S2V"}
            it.session.contracts[spikeglx.geometry_from_meta] = geometry_summary
            obj = SObj(spikeglx.Reader)
            run_function(it, spikeglx.Reader.__init__, [obj, p], {"open": False, "sort": sort})
            rco = obj.raw_channel_order
            i = z3.Int("i")
            tag = f"sort{sort}"
            it.ctx.oblige(f"init.geometry_call.{tag}", z3.BoolVal(seen.get("sort") is sort and seen.get("return_index") is True and seen.get("meta_is")), "post",
                          "geometry_from_meta is asked for the index with the reader's sort flag")
            it.ctx.oblige(f"init.order_len.{tag}", A.T(rco.shape[0]) == nc, "post")
            it.ctx.oblige(f"init.order_geom.{tag}", A.forall([i], lambda: z3.Implies(z3.And(i >= 0, i < ng), rco.read((i,)) == order.read((i,)))), "post")
            it.ctx.oblige(f"init.order_identity_on_sync.{tag}", A.forall([i], lambda: z3.Implies(z3.And(i >= ng, i < nc), rco.read((i,)) == i)), "post")
            it.ctx.oblige(f"init.geometry_stored.{tag}", z3.BoolVal(obj.geometry is geom), "post")
            it.ctx.oblige(f"init.s2v_stored.{tag}", z3.BoolVal(obj.channel_conversion_sample2v == {"ap": "S2V"}), "post")
        S.explore(body)


# ----------------------------------------------------------------------------- bounded: real files, every shipped meta, bin + cbin
FIX = os.path.join(os.path.dirname(spikeglx.__file__), "tests", "fixtures")


def _write_rec(d, meta_src, ns, rng):
    md = spikeglx.read_meta_data(meta_src)
    nc = int(md["nSavedChans"])
    fs = spikeglx._get_fs_from_meta(md)
    name = os.path.basename(meta_src)[:-5]
    b = os.path.join(d, name + ".bin")
    with open(meta_src) as f, open(os.path.join(d, name + ".meta"), "w") as g:
        seen = set()
        for line in f:
            if line.startswith("fileSizeBytes"):
                line = f"fileSizeBytes={ns * nc * 2}\n"
                seen.add("s")
            if line.startswith("fileTimeSecs"):
                line = f"fileTimeSecs={ns / fs:.10f}\n"
                seen.add("t")
            g.write(line if line.endswith("\n") else line + "\n")
        if "s" not in seen:        # metadata of a recording still being acquired
            g.write(f"fileSizeBytes={ns * nc * 2}\n")
        if "t" not in seen:
            g.write(f"fileTimeSecs={ns / fs:.10f}\n")
    D = rng.integers(-32768, 32768, size=(ns, nc), dtype=np.int16)
    D.tofile(b)
    return b, D, md


def native_reader_cases(rng, n_files=None, quick=True, case=None):
    bad = []
    metas = sorted(f for f in os.listdir(FIX) if f.endswith(".meta"))
    if n_files:
        metas = metas[:n_files]
    first_geometry = {}
    for mf in metas:
        d = tempfile.mkdtemp(prefix="c01_")
        try:
            ns = int(rng.integers(40, 90))
            b, D, md = _write_rec(d, os.path.join(FIX, mf), ns, rng)
            for sort in (True, False, True):
                try:
                    sr = spikeglx.Reader(b, sort=sort)
                except Exception as e:
                    bad.append((mf, "open", repr(e)))
                    continue
                nc = sr.nc
                s2v = sr.sample2volts
                # independent reading of the order: geometry 'ind' gives the on-disk channel of each geometry entry
                if sr.geometry is not None and sort:
                    g = sr.geometry
                    ind = np.asarray(g["ind"]).astype(int)
                    key = np.lexsort((-g["col"], g["row"], g["shank"]))
                    if not np.array_equal(key, np.arange(key.size)):
                        bad.append((mf, "geometry not ordered by shank,row,-col"))
                    order = np.r_[ind, np.arange(ind.size, nc)]
                elif sr.geometry is not None:
                    order = np.arange(nc)
                    if not np.array_equal(np.asarray(sr.geometry["ind"]).astype(int), np.arange(sr.geometry["ind"].size)):
                        bad.append((mf, "unsorted geometry is not in on-disk order"))
                else:
                    order = np.arange(nc)
                V = D.astype(np.float32)[:, order] * s2v[order].astype(np.float32) if False else (D[:, order].astype(np.float32) * sr.channel_conversion_sample2v[sr.type][order])
                perm = rng.permutation(ns)[:9]
                sels_n = [0, -1, ns - 1, slice(None), slice(3, 17), slice(None, None, -1), slice(ns + 5, 2, -3), slice(-7, None, 2), slice(5, 5), [1, 4, 2], np.array([0, ns - 1]),
                          [20, 3, 7], perm, [10, 2, 10, 33, 2, 5], np.array([-1, 4, -ns, 2, -3]), [6]]
                sels_c = [0, -1, slice(None), slice(2, 9, 3), slice(None, None, -1), slice(4, 4), [0, 5 % nc, 3 % nc], np.array([nc - 1, 1]), list(range(nc - 1, nc))]
                for sn in sels_n:
                    for sc in sels_c:
                        if isinstance(sn, (list, np.ndarray)) and isinstance(sc, (list, np.ndarray)):
                            continue
                        got = sr[sn, sc]
                        want = V[sn][..., sc] if isinstance(sn, (list, np.ndarray)) or isinstance(sc, (list, np.ndarray)) else V[sn, sc]
                        if getattr(got, "dtype", None) != np.float32 or np.shape(got) != np.shape(want) or not np.array_equal(got, want):
                            bad.append((mf, sort, repr(sn), repr(sc), np.shape(got), np.shape(want)))
                    if isinstance(sn, (list, np.ndarray)):
                        continue        # a bare list is not a (sample, channel) pair: finding F-C01-1, probed separately
                    got = sr[sn]
                    if not np.array_equal(got, V[sn]):
                        bad.append((mf, sort, repr(sn), "no csel"))
                nsy = sr.nsync
                if nsy and not np.array_equal(sr[:, nc - nsy:], D[:, nc - nsy:].astype(np.float32)):
                    bad.append((mf, sort, "sync scaled"))
                # read() with the sync returned separately, unsorted sample lists included
                for sn in (slice(2, 30, 3), [20, 3, 7], perm):
                    dat, syn = sr.read(nsel=sn, csel=slice(None), sync=True)
                    ok = np.array_equal(dat, V[sn]) and (syn is None or np.shape(syn)[0] == len(V[sn]))
                    if ok and syn is not None and sr.type in ("ap", "lf") and nsy and np.shape(syn)[1] >= 16:
                        word = D[sn][:, -1].astype(np.int16).view(np.uint16).astype(int)
                        ok = all(np.array_equal(np.asarray(syn)[:, k], (word >> k) & 1) for k in range(16))
                    if not ok:
                        bad.append((mf, sort, repr(sn), "read(sync=True): data rows / sync rows not those of the requested samples in the requested order"))
                # the geometry does not depend on how many readers were built before in this process: entry i describes the electrode behind column i
                if sr.geometry is not None:
                    unsort = np.argsort(np.asarray(sr.geometry["ind"]).astype(int), kind="stable")
                    snap = {k: np.asarray(v)[unsort].copy() for k, v in sr.geometry.items() if np.size(v) == np.size(sr.geometry["ind"])}
                    if mf in first_geometry:
                        for k, v in snap.items():
                            if not np.array_equal(v, first_geometry[mf][k], equal_nan=True):
                                bad.append((mf, sort, "geometry key %s differs from the first reader built on this file" % k, float(np.nanmax(np.abs(v - first_geometry[mf][k])))))
                    else:
                        first_geometry[mf] = snap
                sr.close()
        finally:
            shutil.rmtree(d, ignore_errors=True)
    return bad


@bounded(PROPERTY, "native_all_metas", bound="every meta file shipped in tests/unit/fixtures (3A, 3B, NP2.1, NP2.4 both encodings, NPultra, subsets, nidq) x sorted/unsorted/sorted again (3 readers per file: geometry must not depend on earlier readers) x 16 sample selectors incl. unsorted / repeated / negative index lists x 9 channel selectors, read(sync=True) "
         "(ints, slices with negative/over-range start/stop/step, empty, lists, arrays) on random int16 content, ns in 40..90",
         clause="all clauses natively, uncompressed files")
def b_native(B):
    rng = np.random.default_rng(B.seed)
    metas = sorted(f for f in os.listdir(FIX) if f.endswith(".meta"))
    bad = native_reader_cases(rng)
    for mf in metas:
        mine = [b for b in bad if b[0] == mf]
        B.case(mf, not mine, detail=mine[:3])
    # F-C01-1: a bare list / array of sample indices (no channel selector) is mis-dispatched
    d = tempfile.mkdtemp(prefix="c01_")
    try:
        b, D, md = _write_rec(d, os.path.join(FIX, "sample3A_g0_t0.imec.ap.meta"), 50, rng)
        sr = spikeglx.Reader(b)
        V = D.astype(np.float32)[:, sr.raw_channel_order] * sr.sample2volts[sr.raw_channel_order]
        for item in ([1, 4, 2], [3, 7], np.array([0, 5])):
            got = sr[item]
            ok = got is not None and np.shape(got) == np.shape(V[item]) and np.array_equal(got, V[item])
            B.case(("bare_list", repr(item)), ok, detail=f"sr[{item!r}] -> {None if got is None else np.shape(got)} instead of rows {item!r}",
                   inputs={"kind": "bare_list", "n": len(item)})
        # results held while the same reader reads again (same number of samples): single channel, channel list, whole frame, single sample
        held = []
        for nsel, csel in ((slice(5, 25), 3), (slice(5, 25), [3, 9]), (slice(5, 25), slice(None)), (7, 3), (slice(5, 25), 380)):
            got = sr[nsel, csel]
            held.append((nsel, csel, got, np.array(got, copy=True)))
            sr[slice(25, 45), csel]
            sr.read(slice(25, 45), csel)
        stale = [(repr(n_), repr(c_)) for n_, c_, g_, cp_ in held if not (np.array_equal(g_, cp_) and np.array_equal(cp_, V[n_, c_]))]
        B.case("results_kept_across_later_reads", not stale, detail=stale[:4])
        sr.close()
    finally:
        shutil.rmtree(d, ignore_errors=True)


# ----------------------------------------------------------------------------- contracts of dependencies this property rests on (re-checked here)
from pyvc.api import depends  # noqa: E402
depends(PROPERTY, "C09", ["sample2v_imec", "sample2v_nidq"])      # per-channel volts-per-bit vector in on-disk order, 1 on sync
depends(PROPERTY, "C08", ["joint_permutation", "default_layout"])                   # geometry_from_meta: the order stored as raw_channel_order
depends(PROPERTY, "C11", ["open_int16", "open_cbin"])                 # "the whole calibrated array": the rows indexed are the complete frames of the file, whatever the metadata announce and whatever the warning option
