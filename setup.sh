#!/bin/bash
# builds the overlay interpreter: /venv's python + repo deps (via .pth) + z3-solver / icontract from the offline wheelhouse
set -e
HERE="$(cd "$(dirname "${BASH_SOURCE[0]}")" && pwd)"
cd "$HERE"
if [ -x .venv/bin/python ] && .venv/bin/python -c "import z3, icontract, numpy, jsonschema" 2>/dev/null; then
  echo "overlay venv ok"; exit 0
fi
rm -rf .venv
/venv/bin/python -m venv .venv
echo "import site; site.addsitedir('/venv/lib/python3.12/site-packages')" > .venv/lib/python3.12/site-packages/_venv_overlay.pth
PIP_NO_INDEX=1 .venv/bin/python -m pip install -q --no-index --find-links /opt/veriftools/wheels --no-deps \
   z3-solver icontract asttokens six jsonschema jsonschema_specifications referencing rpds_py attrs typing_extensions
.venv/bin/python -c "import z3, icontract, numpy, scipy, jsonschema; print('overlay venv built', z3.get_version_string(), numpy.__version__)"
